/-
Helper lemmas for C11 (pure part): the reader model inverts the writer model.
-/
import SwimVerif.Model.Envelope

set_option linter.unusedSimpArgs false
set_option linter.unusedVariables false
namespace SwimVerif.Envelope
open SwimVerif.Generated.Env

/-! ### identifiers -/

theorem takeWhile_all_append {p : Char → Bool} (xs : Str) (d : Char) (r : Str)
    (h : xs.all p = true) (hd : p d = false) : (xs ++ d :: r).takeWhile p = xs := by
  induction xs with
  | nil => simp [List.takeWhile_cons, hd]
  | cons x xs ih =>
    simp only [List.all_cons, Bool.and_eq_true] at h
    simp [List.takeWhile_cons, h.1, ih h.2]

theorem dropWhile_all_append {p : Char → Bool} (xs : Str) (d : Char) (r : Str)
    (h : xs.all p = true) (hd : p d = false) : (xs ++ d :: r).dropWhile p = d :: r := by
  induction xs with
  | nil => simp [List.dropWhile_cons, hd]
  | cons x xs ih =>
    simp only [List.all_cons, Bool.and_eq_true] at h
    simp [List.dropWhile_cons, h.1, ih h.2]

theorem takeWhile_all {p : Char → Bool} (xs : Str) (h : xs.all p = true) : xs.takeWhile p = xs := by
  induction xs with
  | nil => rfl
  | cons x xs ih =>
    simp only [List.all_cons, Bool.and_eq_true] at h
    simp [List.takeWhile_cons, h.1, ih h.2]

theorem dropWhile_all {p : Char → Bool} (xs : Str) (h : xs.all p = true) : xs.dropWhile p = [] := by
  induction xs with
  | nil => rfl
  | cons x xs ih =>
    simp only [List.all_cons, Bool.and_eq_true] at h
    simp [List.dropWhile_cons, h.1, ih h.2]

theorem all_of_dropWhile_nil {p : Char → Bool} (xs : Str) (h : xs.dropWhile p = []) : xs.all p = true := by
  induction xs with
  | nil => rfl
  | cons x xs ih =>
    by_cases hx : p x = true
    · simp only [List.dropWhile_cons, hx, if_true] at h
      simp [hx, ih h]
    · simp [List.dropWhile_cons, hx] at h

theorem lexIdent_append (c : Char) (cs : Str) (d : Char) (rest : Str)
    (hc : isIdentStart c = true) (hcs : cs.all isIdentChar = true) (hd : isIdentChar d = false) :
    lexIdent (c :: cs ++ d :: rest) = some (c :: cs, d :: rest) := by
  simp [lexIdent, hc, takeWhile_all_append cs d rest hcs hd, dropWhile_all_append cs d rest hcs hd]

theorem lexIdent_all (c : Char) (cs : Str)
    (hc : isIdentStart c = true) (hcs : cs.all isIdentChar = true) :
    lexIdent (c :: cs) = some (c :: cs, []) := by
  simp [lexIdent, hc, takeWhile_all cs hcs, dropWhile_all cs hcs]

theorem isIdentifier_shape {s : Str} (h : isIdentifier s = true) :
    ∃ c cs, s = c :: cs ∧ isIdentStart c = true ∧ cs.all isIdentChar = true := by
  unfold isIdentifier at h
  split at h
  · simp at h
  · cases s with
    | nil => simp at h
    | cons c cs => exact ⟨c, cs, rfl, by simpa using h⟩


/-! ### side conditions on the generated tables (re-checked against the sources on every run) -/

/-- the reader's escape letters invert the writer's, and the letters are characters -/
theorem table_inverse : ∀ p ∈ escTable, unescTable.lookup p.2 = some p.1 ∧ p.2 < 55296 := by decide

theorem quote_in_table : (escTable.lookup 34).isSome = true ∧ (escTable.lookup 92).isSome = true := by decide

theorem u_not_escape_letter : unescTable.lookup 117 = none := by decide

theorem hex_digits_ok : ∀ k, k < 16 →
    hexDigitVal (hexDigitC k) = some k ∧ hexDigitC k ≠ '"' ∧ hexDigitC k ≠ '\\' ∧ hexDigitC k ≠ 'u' := by decide

theorem low_code_roundtrip : ∀ n, n < escapeBelow →
    ((n >>> 12 &&& 15) <<< 12 ||| (n >>> 8 &&& 15) <<< 8 ||| (n >>> 4 &&& 15) <<< 4 ||| (n &&& 15)) = n ∧
    validScalar n = true := by decide

/-- every character the writer escapes is one for which `needs_escape` holds -/
theorem escaped_needs_escape : (∀ p ∈ escTable, p.1 < needsEscapeBelow ∨ needsEscapeExtra.contains p.1 = true) ∧
    escapeBelow ≤ needsEscapeBelow := by decide

theorem lookup_mem {l : List (Nat × Nat)} {k v : Nat} (h : l.lookup k = some v) : (k, v) ∈ l := by
  induction l with
  | nil => simp at h
  | cons x xs ih =>
    obtain ⟨a, b⟩ := x
    simp only [List.lookup_cons] at h
    by_cases hk : k == a
    · simp only [hk] at h
      have : k = a := by simpa using hk
      simp_all
    · simp only [hk] at h
      exact List.mem_cons_of_mem _ (ih h)

theorem and15_lt (n : Nat) : n &&& 15 < 16 := by
  have := @Nat.and_le_right n 15
  omega

/-! ### escaping -/

theorem escapeChar_cases (c : Char) :
    (∃ e, escTable.lookup c.toNat = some e ∧ escapeChar c = ['\\', Char.ofNat e]) ∨
    (escTable.lookup c.toNat = none ∧ c.toNat < escapeBelow ∧
      escapeChar c = ['\\', 'u', hexDigitC (c.toNat >>> 12 &&& 15), hexDigitC (c.toNat >>> 8 &&& 15),
        hexDigitC (c.toNat >>> 4 &&& 15), hexDigitC (c.toNat &&& 15)]) ∨
    (escTable.lookup c.toNat = none ∧ ¬ c.toNat < escapeBelow ∧ escapeChar c = [c]) := by
  unfold escapeChar
  cases h : escTable.lookup c.toNat with
  | some e => exact Or.inl ⟨e, rfl, rfl⟩
  | none =>
    by_cases hb : c.toNat < escapeBelow
    · exact Or.inr (Or.inl ⟨rfl, hb, by simp [hb]⟩)
    · exact Or.inr (Or.inr ⟨rfl, hb, by simp [hb]⟩)

theorem plain_not_special {c : Char} (h : escTable.lookup c.toNat = none) : c ≠ '"' ∧ c ≠ '\\' := by
  constructor
  · intro hc; subst hc
    have := quote_in_table.1
    have e : ('"' : Char).toNat = 34 := by decide
    rw [e] at h; simp [h] at this
  · intro hc; subst hc
    have := quote_in_table.2
    have e : ('\\' : Char).toNat = 92 := by decide
    rw [e] at h; simp [h] at this

theorem scanStr_escapeChar (c : Char) (t : Str) :
    scanStr false (escapeChar c ++ t) = (scanStr false t).map fun r => (escapeChar c ++ r.1, r.2) := by
  rcases escapeChar_cases c with ⟨e, _, h⟩ | ⟨_, _, h⟩ | ⟨hl, _, h⟩
  · rw [h]; simp [scanStr]
    cases scanStr false t <;> simp
  · rw [h]
    have h1 := hex_digits_ok _ (and15_lt (c.toNat >>> 12))
    have h2 := hex_digits_ok _ (and15_lt (c.toNat >>> 8))
    have h3 := hex_digits_ok _ (and15_lt (c.toNat >>> 4))
    have h4 := hex_digits_ok _ (and15_lt c.toNat)
    simp [scanStr, h1.2.1, h1.2.2.1, h2.2.1, h2.2.2.1, h3.2.1, h3.2.2.1, h4.2.1, h4.2.2.1]
    cases scanStr false t <;> simp
  · rw [h]
    have := plain_not_special hl
    simp [scanStr, this.1, this.2]

theorem scanStr_escapeText (s : Str) (rest : Str) :
    scanStr false (escapeText s ++ '"' :: rest) = some (escapeText s, rest) := by
  induction s with
  | nil => simp [escapeText, scanStr]
  | cons c cs ih =>
    have : escapeText (c :: cs) = escapeChar c ++ escapeText cs := by simp [escapeText]
    rw [this, List.append_assoc, scanStr_escapeChar, ih]
    simp


def consR (c : Char) : R Str → R Str
  | .ok r => .ok (c :: r)
  | e => e

theorem unescRun_emit (st' : EscSt) (o x : Char) (st : EscSt) (cs : Str)
    (h : unescStep st x = .next st' (some o)) : unescRun st (x :: cs) = consR o (unescRun st' cs) := by
  simp only [unescRun, h, consR]
  cases unescRun st' cs <;> rfl

theorem unescRun_skip (st' : EscSt) (x : Char) (st : EscSt) (cs : Str)
    (h : unescStep st x = .next st' none) : unescRun st (x :: cs) = unescRun st' cs := by
  simp only [unescRun, h]

theorem toNat_ofNat_small {e : Nat} (h : e < 55296) : (Char.ofNat e).toNat = e := by
  have hv : e.isValidChar := Or.inl h
  simp [Char.ofNat, hv, Char.toNat, Char.ofNatAux]

theorem unescRun_escapeChar (c : Char) (t : Str) :
    unescRun .none (escapeChar c ++ t) = consR c (unescRun .none t) := by
  rcases escapeChar_cases c with ⟨e, hl, h⟩ | ⟨hl, hb, h⟩ | ⟨hl, _, h⟩
  · rw [h]
    have hm := table_inverse _ (lookup_mem hl)
    simp only at hm
    show unescRun .none ('\\' :: Char.ofNat e :: t) = _
    rw [unescRun_skip .esc '\\' .none _ (by simp [unescStep])]
    rw [unescRun_emit .none c (Char.ofNat e) .esc t]
    simp [unescStep, toNat_ofNat_small hm.2, hm.1, Char.ofNat_toNat]
  · rw [h]
    have h1 := hex_digits_ok _ (and15_lt (c.toNat >>> 12))
    have h2 := hex_digits_ok _ (and15_lt (c.toNat >>> 8))
    have h3 := hex_digits_ok _ (and15_lt (c.toNat >>> 4))
    have h4 := hex_digits_ok _ (and15_lt c.toNat)
    have hr := low_code_roundtrip _ hb
    have hu : ('u' : Char).toNat = 117 := by decide
    show unescRun .none ('\\' :: 'u' :: _ :: _ :: _ :: _ :: t) = _
    rw [unescRun_skip .esc '\\' .none _ (by simp [unescStep])]
    rw [unescRun_skip .u0 'u' .esc _ (by simp [unescStep, hu, u_not_escape_letter])]
    generalize ha : c.toNat >>> 12 &&& 15 = a at *
    generalize hb' : c.toNat >>> 8 &&& 15 = b at *
    generalize hd : c.toNat >>> 4 &&& 15 = d at *
    generalize he : c.toNat &&& 15 = e at *
    rw [unescRun_skip (.u1 a) _ .u0 _ (by simp [unescStep, h1.1, h1.2.2.2])]
    rw [unescRun_skip (.u2 a b) _ (.u1 a) _ (by simp [unescStep, h2.1])]
    rw [unescRun_skip (.u3 a b d) _ (.u2 a b) _ (by simp [unescStep, h3.1])]
    rw [unescRun_emit .none c _ (.u3 a b d) t]
    simp [unescStep, h4.1, hr.1, hr.2, Char.ofNat_toNat]
  · rw [h]
    have := plain_not_special hl
    show unescRun .none (c :: t) = _
    rw [unescRun_emit .none c c .none t (by simp [unescStep, this.2])]

theorem unescRun_escapeText (s : Str) : unescRun .none (escapeText s) = .ok s := by
  induction s with
  | nil => simp [escapeText, unescRun]
  | cons c cs ih =>
    have : escapeText (c :: cs) = escapeChar c ++ escapeText cs := by simp [escapeText]
    rw [this, unescRun_escapeChar, ih]; rfl

theorem unescRun_no_backslash (t : Str) (h : t.contains '\\' = false) : unescRun .none t = .ok t := by
  induction t with
  | nil => simp [unescRun]
  | cons c cs ih =>
    simp only [List.contains_cons, Bool.or_eq_false_iff] at h
    have hc : c ≠ '\\' := by
      intro e; subst e; simp at h
    rw [unescRun_emit .none c c .none cs (by simp [unescStep, hc]), ih h.2]; rfl

theorem resolveEscapes_eq (t : Str) : resolveEscapes t = unescRun .none t := by
  unfold resolveEscapes
  by_cases h : t.contains '\\' = true
  · rw [if_pos h]
  · have h' : t.contains '\\' = false := by simpa using h
    rw [if_neg h, unescRun_no_backslash t h']

theorem lexString_escaped (s rest : Str) :
    lexString ('"' :: (escapeText s ++ '"' :: rest)) = .ok (escapeText s, s, rest) := by
  simp [lexString, scanStr_escapeText, resolveEscapes_eq, unescRun_escapeText]


/-! ### identifier characters never need escaping, and are not delimiters -/

/-- every range lies above the escape threshold and misses the individually escaped characters -/
def rangesAvoid (rs : List (Nat × Nat)) : Bool :=
  rs.all fun r => decide (needsEscapeBelow ≤ r.1) && needsEscapeExtra.all fun x => decide (x < r.1) || decide (r.2 < x)

theorem ranges_avoid : rangesAvoid identStartRanges = true ∧ rangesAvoid identExtraRanges = true := by decide

theorem inRanges_avoid {rs : List (Nat × Nat)} (h : rangesAvoid rs = true) {n : Nat} (hn : inRanges rs n = true) :
    ¬ n < needsEscapeBelow ∧ needsEscapeExtra.contains n = false := by
  induction rs with
  | nil => simp [inRanges] at hn
  | cons r rs ih =>
    simp only [rangesAvoid, List.all_cons, Bool.and_eq_true, decide_eq_true_eq] at h
    simp only [inRanges, List.any_cons, Bool.or_eq_true, Bool.and_eq_true, decide_eq_true_eq] at hn
    rcases hn with hn | hn
    · refine ⟨by omega, ?_⟩
      have h2 := h.1.2
      rw [List.all_eq_true] at h2
      cases hc : needsEscapeExtra.contains n with
      | false => rfl
      | true =>
        have hm : n ∈ needsEscapeExtra := by simpa using hc
        have := h2 n hm
        simp only [Bool.or_eq_true, decide_eq_true_eq] at this
        omega
    · exact ih (by simpa [rangesAvoid] using h.2) (by simpa [inRanges] using hn)

theorem identChar_no_escape {c : Char} (h : isIdentChar c = true) : needsEscapeChar c = false := by
  simp only [isIdentChar, isIdentStart, Bool.or_eq_true] at h
  rcases h with h | h
  · have := inRanges_avoid ranges_avoid.1 h
    simp only [needsEscapeChar, this.2, Bool.or_false, decide_eq_false_iff_not]; exact this.1
  · have := inRanges_avoid ranges_avoid.2 h
    simp only [needsEscapeChar, this.2, Bool.or_false, decide_eq_false_iff_not]; exact this.1

theorem identStart_identChar {c : Char} (h : isIdentStart c = true) : isIdentChar c = true := by
  simp [isIdentChar, h]

theorem delims_not_ident :
    isIdentChar ',' = false ∧ isIdentChar ')' = false ∧ isIdentChar '(' = false ∧ isIdentChar ':' = false ∧
    isIdentStart '"' = false ∧ isIdentStart ' ' = false ∧ isIdentStart '\t' = false ∧ isIdentStart '\r' = false ∧
    isIdentStart '\n' = false := by decide

theorem identStart_ne {c : Char} (h : isIdentStart c = true) :
    c ≠ '"' ∧ isSpace c = false ∧ isMultispace c = false := by
  have d := delims_not_ident
  refine ⟨?_, ?_, ?_⟩
  · intro e; subst e; simp [d.2.2.2.2.1] at h
  · cases hs : isSpace c with
    | false => rfl
    | true =>
      simp only [isSpace, Bool.or_eq_true, beq_iff_eq] at hs
      rcases hs with e | e <;> subst e <;> simp_all
  · cases hs : isMultispace c with
    | false => rfl
    | true =>
      simp only [isMultispace, Bool.or_eq_true, beq_iff_eq] at hs
      rcases hs with ((e | e) | e) | e <;> subst e <;> simp_all

/-! ### `escape_if_needed` -/

theorem escapeChar_plain {c : Char} (h : needsEscapeChar c = false) : escapeChar c = [c] := by
  have hs := escaped_needs_escape
  simp only [needsEscapeChar, Bool.or_eq_false_iff, decide_eq_false_iff_not] at h
  rcases escapeChar_cases c with ⟨e, hl, _⟩ | ⟨_, hb, _⟩ | ⟨_, _, h'⟩
  · have := hs.1 _ (lookup_mem hl)
    simp only at this
    rcases this with h1 | h1
    · exact absurd h1 h.1
    · rw [h.2] at h1; cases h1
  · exact absurd (Nat.lt_of_lt_of_le hb hs.2) h.1
  · exact h'

theorem escapeText_plain (s : Str) (h : needsEscape s = false) : escapeText s = s := by
  induction s with
  | nil => rfl
  | cons c cs ih =>
    simp only [needsEscape, List.any_cons, Bool.or_eq_false_iff] at h
    have : escapeText (c :: cs) = escapeChar c ++ escapeText cs := by simp [escapeText]
    rw [this, escapeChar_plain h.1, ih (by simpa [needsEscape] using h.2)]; rfl

theorem escapeIfNeeded_eq (s : Str) : escapeIfNeeded s = escapeText s := by
  unfold escapeIfNeeded
  by_cases h : needsEscape s = true
  · rw [if_pos h]
  · rw [if_neg h, escapeText_plain s (by simpa using h)]

theorem ident_no_escape (c : Char) (cs : Str) (hc : isIdentStart c = true) (hcs : cs.all isIdentChar = true) :
    escapeIfNeeded (c :: cs) = c :: cs := by
  unfold escapeIfNeeded
  have : needsEscape (c :: cs) = false := by
    simp only [needsEscape, List.any_cons, Bool.or_eq_false_iff]
    refine ⟨identChar_no_escape (identStart_identChar hc), ?_⟩
    rw [List.any_eq_false]
    intro x hx
    rw [List.all_eq_true] at hcs
    simp [identChar_no_escape (hcs x hx)]
  simp [this]

/-- The two shapes of the literal written for a name. -/
theorem lit_cases (s : Str) :
    (∃ c cs, s = c :: cs ∧ isIdentStart c = true ∧ cs.all isIdentChar = true ∧ lit s = s) ∨
    (isIdentifier s = false ∧ lit s = '"' :: (escapeText s ++ ['"'])) := by
  by_cases h : isIdentifier s = true
  · obtain ⟨c, cs, rfl, hc, hcs⟩ := isIdentifier_shape h
    exact Or.inl ⟨c, cs, rfl, hc, hcs, by simp [lit, writeLit, h, ident_no_escape c cs hc hcs]⟩
  · have h' : isIdentifier s = false := by simpa using h
    exact Or.inr ⟨h', by simp [lit, writeLit, h', escapeIfNeeded_eq]⟩

theorem pValue_lit (s : Str) (d : Char) (rest : Str) (hd : isIdentChar d = false) :
    pValue (lit s ++ d :: rest) = .ok (lit s, d :: rest) := by
  rcases lit_cases s with ⟨c, cs, rfl, hc, hcs, hl⟩ | ⟨_, hl⟩
  · rw [hl]
    have hq := (identStart_ne hc).1
    show pValue (c :: (cs ++ d :: rest)) = _
    simp only [pValue, hq, if_false]
    have := lexIdent_append c cs d rest hc hcs hd
    simp only [List.cons_append] at this
    rw [this]
  · rw [hl]
    have e : ('"' :: (escapeText s ++ ['"'])) ++ d :: rest = '"' :: (escapeText s ++ '"' :: (d :: rest)) := by simp
    rw [e]
    simp only [pValue, if_true, lexString_escaped]

theorem parseTextToken_lit (s : Str) : parseTextToken (lit s) = .ok s := by
  rcases lit_cases s with ⟨c, cs, rfl, hc, hcs, hl⟩ | ⟨_, hl⟩
  · rw [hl]
    have hs : skipSpace (c :: cs) = c :: cs := by simp [skipSpace, List.dropWhile_cons, (identStart_ne hc).2.1]
    simp only [parseTextToken, hs, lexIdent_all c cs hc hcs]
    simp [skipSpace]
  · rw [hl]
    have hs : skipSpace ('"' :: (escapeText s ++ ['"'])) = '"' :: (escapeText s ++ ['"']) := by
      simp [skipSpace, List.dropWhile_cons, isSpace]
    have hi : lexIdent ('"' :: (escapeText s ++ ['"'])) = none := by
      simp [lexIdent, delims_not_ident.2.2.2.2.1]
    simp only [parseTextToken, hs, hi, scanStr_escapeText, resolveEscapes_eq, unescRun_escapeText]
    simp [skipSpace]

theorem lit_head (s : Str) : ∃ c t, lit s = c :: t ∧ isMultispace c = false ∧ isSpace c = false := by
  rcases lit_cases s with ⟨c, cs, rfl, hc, _, hl⟩ | ⟨_, hl⟩
  · exact ⟨c, cs, hl, (identStart_ne hc).2.2, (identStart_ne hc).2.1⟩
  · exact ⟨'"', _, hl, by decide, by decide⟩

theorem skipMulti_lit (s t : Str) : skipMulti (lit s ++ t) = lit s ++ t := by
  obtain ⟨c, u, h, hm, _⟩ := lit_head s
  rw [h]; simp [skipMulti, List.dropWhile_cons, hm]


/-! ### the header -/

/-- the tag the reader associates with each kind -/
def rTag : Kind → Str
  | .link => rTag_link | .sync => rTag_sync | .unlink => rTag_unlink | .command => rTag_command
  | .linked => rTag_linked | .synced => rTag_synced | .unlinked => rTag_unlinked | .event => rTag_event

/-- Writer and reader constants agree (checked on the generated tables). -/
theorem consts_agree (k : Kind) :
    wHeader k = '@' :: (rTag k ++ ['(']) ∧ isIdentifier (rTag k) = true ∧ tagKind (rTag k) = some (.k k) := by
  cases k <;> decide

theorem slot_consts :
    wNodeTag = rSlot_node ++ [':'] ∧ wLaneTag = rSlot_lane ++ [':'] ∧
    isIdentifier rSlot_node = true ∧ isIdentifier rSlot_lane = true ∧
    rSlot_node ≠ rSlot_rate ∧ rSlot_node ≠ rSlot_prio ∧ rSlot_lane ≠ rSlot_rate ∧ rSlot_lane ≠ rSlot_prio ∧
    rSlot_lane ≠ rSlot_node := by decide

theorem pName_ident (nm : Str) (d : Char) (rest : Str) (h : isIdentifier nm = true) (hd : isIdentChar d = false) :
    pName (nm ++ d :: rest) = .ok (nm, d :: rest) := by
  obtain ⟨c, cs, rfl, hc, hcs⟩ := isIdentifier_shape h
  simp only [pName, lexIdent_append c cs d rest hc hcs hd]

theorem skipMulti_ident (nm rest : Str) (h : isIdentifier nm = true) : skipMulti (nm ++ rest) = nm ++ rest := by
  obtain ⟨c, cs, rfl, hc, hcs⟩ := isIdentifier_shape h
  simp [skipMulti, List.dropWhile_cons, (identStart_ne hc).2.2]

/-- a slot `name:literal` followed by `,` or `)` -/
theorem pItem_slot (nm s : Str) (d : Char) (rest : Str) (h : isIdentifier nm = true) (hd : isIdentChar d = false) :
    pItem (nm ++ ':' :: (lit s ++ d :: rest)) = .slot nm (lit s) (d :: rest) := by
  have h1 := pName_ident nm ':' (lit s ++ d :: rest) h delims_not_ident.2.2.2.1
  have h2 : slotDiv (':' :: (lit s ++ d :: rest)) = some (lit s ++ d :: rest) := by
    have : skipMulti (':' :: (lit s ++ d :: rest)) = ':' :: (lit s ++ d :: rest) := by
      simp [skipMulti, List.dropWhile_cons, isMultispace]
    simp only [slotDiv, this, if_true, skipMulti_lit]
  simp only [pItem, h1, h2, pValue_lit s d rest hd]

theorem skipSpace_delim (d : Char) (rest : Str) (h : isSpace d = false) : skipSpace (d :: rest) = d :: rest := by
  simp [skipSpace, List.dropWhile_cons, h]

/-- The bracketed part of a header written by `write_header` is read back as the two literals. -/
theorem pParen_written (n l rest : Str) :
    pParen ('(' :: (rSlot_node ++ ':' :: (lit n ++ ',' :: (rSlot_lane ++ ':' :: (lit l ++ ')' :: rest))))) =
      .ok { node := some (lit n), lane := some (lit l) } rest := by
  have sc := slot_consts
  have dl := delims_not_ident
  generalize hR : rSlot_lane ++ ':' :: (lit l ++ ')' :: rest) = R
  have hitemN := pItem_slot rSlot_node n ',' R sc.2.2.1 dl.1
  have hitemL : pItem R = .slot rSlot_lane (lit l) (')' :: rest) := by
    rw [← hR]; exact pItem_slot rSlot_lane l ')' rest sc.2.2.2.1 dl.2.1
  have hsmN := skipMulti_ident rSlot_node (':' :: (lit n ++ ',' :: R)) sc.2.2.1
  have hsmL : skipMulti R = R := by
    rw [← hR]; exact skipMulti_ident rSlot_lane _ sc.2.2.2.1
  have happN : applySlot (some {}) rSlot_node (lit n) = some (some { node := some (lit n) }) := by
    simp [applySlot, sc.2.2.2.2.1, sc.2.2.2.2.2.1]
  have happL : applySlot (some { node := some (lit n) }) rSlot_lane (lit l) =
      some (some { node := some (lit n), lane := some (lit l) }) := by
    simp [applySlot, sc.2.2.2.2.2.2.1, sc.2.2.2.2.2.2.2.1, sc.2.2.2.2.2.2.2.2]
  have hloop : ∀ k, itemsLoop (k + 2) (some {}) true (rSlot_node ++ ':' :: (lit n ++ ',' :: R)) =
      .ok { node := some (lit n) } true R := by
    intro k
    rw [itemsLoop]
    simp only [hsmN, hitemN, skipSpace_delim ',' R (by decide), true_or, if_true, happN]
    rw [itemsLoop]
    simp only [hsmL, hitemL, skipSpace_delim ')' rest (by decide)]
    simp [loopEnd]
  have hfinal : finalItem { node := some (lit n) } true R =
      .ok { node := some (lit n), lane := some (lit l) } (')' :: rest) := by
    simp only [finalItem, hsmL, hitemL, happL]
  have hsm : skipMulti (')' :: rest) = ')' :: rest := by simp [skipMulti, List.dropWhile_cons, isMultispace]
  simp only [pParen, if_true, hloop, hfinal, hsm]

/-- Right-nested form of the writer's output. -/
theorem encode_shape (k : Kind) (n l tail : Str) :
    writeHeader (wHeader k) n l ++ tail =
      '@' :: (rTag k ++ '(' :: (rSlot_node ++ ':' :: (lit n ++ ',' :: (rSlot_lane ++ ':' :: (lit l ++ ')' :: tail))))) := by
  simp [writeHeader, (consts_agree k).1, slot_consts.1, slot_consts.2.1, List.append_assoc]

theorem peel_written (k : Kind) (n l tail : Str) :
    peel (writeHeader (wHeader k) n l ++ tail) = .env k n l (skipSpace tail) := by
  rw [encode_shape]
  have hc := consts_agree k
  have hn := pName_ident (rTag k) '('
    (rSlot_node ++ ':' :: (lit n ++ ',' :: (rSlot_lane ++ ':' :: (lit l ++ ')' :: tail)))) hc.2.1
    delims_not_ident.2.2.1
  simp only [peel, if_true, hn, hc.2.2, pParen_written, done, parseTextToken_lit]

theorem skipSpace_putBody (b : Str) (h : ∀ c, b.head? = some c → isSpace c = false) : skipSpace (putBody b) = b := by
  cases b with
  | nil => simp [putBody, skipSpace, List.dropWhile_cons, isSpace]
  | cons c cs =>
    have hc := h c rfl
    by_cases ha : c = '@'
    · subst ha; simp [putBody, skipSpace, List.dropWhile_cons, isSpace]
    · have hsp : isSpace ' ' = true := by decide
      simp [putBody, ha, skipSpace, List.dropWhile_cons, hc, hsp]

end SwimVerif.Envelope

/-! ### the reader never panics (once the two panic paths are closed in the code: generated flags) -/
namespace SwimVerif.Envelope
open SwimVerif.Generated.Env

section NoPanic
variable (h1 : unescSurrogatePanics = false) (h2 : textTokenIncompletePanics = false)
include h1

theorem unescStep_no_panic (st : EscSt) (c : Char) (cause : Cause) : unescStep st c ≠ .panic cause := by
  unfold unescStep
  cases st <;> simp only <;> (repeat' split) <;> simp_all

theorem unescRun_no_panic (st : EscSt) (s : Str) (cause : Cause) : unescRun st s ≠ .panic cause := by
  induction s generalizing st cause with
  | nil => simp [unescRun]
  | cons c cs ih =>
    unfold unescRun
    cases hs : unescStep st c with
    | failed => simp
    | panic c' => exact absurd hs (unescStep_no_panic h1 st c c')
    | next st' o =>
      cases o with
      | none => simpa using ih st' cause
      | some o =>
        simp only
        cases hr : unescRun st' cs with
        | ok r => simp
        | fail => simp
        | panic c' => exact absurd hr (ih st' c')
        | unsup => simp

theorem resolveEscapes_no_panic (s : Str) (cause : Cause) : resolveEscapes s ≠ .panic cause := by
  unfold resolveEscapes
  split
  · exact unescRun_no_panic h1 _ _ _
  · simp

theorem lexString_no_panic (s : Str) (cause : Cause) : lexString s ≠ .panic cause := by
  unfold lexString
  cases s with
  | nil => simp
  | cons c cs =>
    simp only
    split
    · cases hsc : scanStr false cs with
      | none => simp
      | some r =>
        simp only
        cases hr : resolveEscapes r.1 with
        | panic c' => exact absurd hr (resolveEscapes_no_panic h1 _ _)
        | ok u => simp
        | fail => simp
        | unsup => simp
    · simp

theorem pName_no_panic (s : Str) (cause : Cause) : pName s ≠ .panic cause := by
  unfold pName
  cases lexIdent s with
  | some r => simp
  | none =>
    simp only
    cases hr : lexString s with
    | panic c' => exact absurd hr (lexString_no_panic h1 _ _)
    | ok u => simp
    | fail => simp
    | unsup => simp

theorem pValue_no_panic (s : Str) (cause : Cause) : pValue s ≠ .panic cause := by
  unfold pValue
  cases s with
  | nil => simp
  | cons c cs =>
    simp only
    split
    · cases hr : lexString (c :: cs) with
      | panic c' => exact absurd hr (lexString_no_panic h1 _ _)
      | ok u => simp
      | fail => simp
      | unsup => simp
    · cases lexIdent (c :: cs) with
      | some r => simp
      | none => simp only; split <;> simp

theorem pItem_no_panic (s : Str) (cause : Cause) : pItem s ≠ .panic cause := by
  unfold pItem
  cases hn : pName s with
  | panic c' => exact absurd hn (pName_no_panic h1 _ _)
  | unsup => simp
  | ok nr =>
    simp only
    cases slotDiv nr.2 with
    | none => simp
    | some r2 =>
      simp only
      cases hv : pValue r2 with
      | panic c' => exact absurd hv (pValue_no_panic h1 _ _)
      | ok v => simp
      | fail => simp
      | unsup => simp
  | fail =>
    simp only
    cases hv : pValue s with
    | panic c' => exact absurd hv (pValue_no_panic h1 _ _)
    | ok v => simp
    | fail => simp
    | unsup => simp

theorem loopEnd_no_panic (acc : Option PSt) (a : Bool) (s : Str) (cause : Cause) : loopEnd acc a s ≠ .panic cause := by
  unfold loopEnd; cases acc <;> simp

theorem itemsLoop_no_panic (fuel : Nat) (acc : Option PSt) (a : Bool) (s : Str) (cause : Cause) :
    itemsLoop fuel acc a s ≠ .panic cause := by
  induction fuel generalizing acc a s with
  | zero => simp [itemsLoop]
  | succ n ih =>
    unfold itemsLoop
    cases hi : pItem (skipMulti s) with
    | panic c' => exact absurd hi (pItem_no_panic h1 _ _)
    | unsup => simp
    | noItem =>
      simp only
      cases skipSpace (skipMulti s) with
      | nil => exact loopEnd_no_panic h1 _ _ _ _
      | cons c r' =>
        simp only
        split
        · exact ih _ _ _
        · exact loopEnd_no_panic h1 _ _ _ _
    | valueItem r =>
      simp only
      cases skipSpace r with
      | nil => exact loopEnd_no_panic h1 _ _ _ _
      | cons c r' =>
        simp only
        split
        · exact ih _ _ _
        · split
          · exact ih _ _ _
          · exact loopEnd_no_panic h1 _ _ _ _
    | slot nm v r =>
      simp only
      cases skipSpace r with
      | nil => exact loopEnd_no_panic h1 _ _ _ _
      | cons c r' =>
        simp only
        split
        · cases applySlot acc nm v with
          | none => simp
          | some acc' => exact ih _ _ _
        · split
          · cases applySlot acc nm v with
            | none => simp
            | some acc' => exact ih _ _ _
          · exact loopEnd_no_panic h1 _ _ _ _

theorem finalItem_no_panic (p : PSt) (a : Bool) (s : Str) (cause : Cause) : finalItem p a s ≠ .panic cause := by
  unfold finalItem
  cases hi : pItem (skipMulti s) with
  | panic c' => exact absurd hi (pItem_no_panic h1 _ _)
  | unsup => simp
  | noItem => simp only; split <;> simp
  | valueItem r => simp
  | slot nm v r =>
    simp only
    cases applySlot (some p) nm v with
    | none => simp
    | some o => cases o <;> simp

theorem pParen_no_panic (s : Str) (cause : Cause) : pParen s ≠ .panic cause := by
  unfold pParen
  cases s with
  | nil => simp
  | cons c r =>
    simp only
    split
    · cases hl : itemsLoop (r.length + 2) (some {}) true r with
      | panic c' => exact absurd hl (itemsLoop_no_panic h1 _ _ _ _ _)
      | fail => simp
      | unsup => simp
      | ok p a r1 =>
        simp only
        cases hf : finalItem p a r1 with
        | panic c' => exact absurd hf (finalItem_no_panic h1 _ _ _ _)
        | fail => simp
        | unsup => simp
        | ok p' r2 =>
          simp only
          cases skipMulti r2 with
          | nil => simp
          | cons d r3 => simp only; split <;> simp
    · simp

include h2

theorem parseTextToken_no_panic (s : Str) (cause : Cause) : parseTextToken s ≠ .panic cause := by
  unfold parseTextToken
  cases lexIdent (skipSpace s) with
  | some r => simp only; split <;> simp
  | none =>
    simp only
    cases skipSpace s with
    | nil => simp [h2]
    | cons c cs =>
      simp only
      split
      · cases scanStr false cs with
        | none => simp [h2]
        | some r =>
          simp only
          cases hr : resolveEscapes r.1 with
          | panic c' => exact absurd hr (resolveEscapes_no_panic h1 _ _)
          | ok u => simp only; split <;> simp
          | fail => simp
          | unsup => simp
      · simp

theorem done_no_panic (k : RKind) (p : PSt) (body : Str) (cause : Cause) : done k p body ≠ .panic cause := by
  unfold done
  cases k with
  | auth => simp
  | deauth => simp
  | k kind =>
    simp only
    cases p.node with
    | none => simp
    | some n =>
      cases p.lane with
      | none => simp
      | some l =>
        simp only
        cases hn : parseTextToken n with
        | panic c' => exact absurd hn (parseTextToken_no_panic h1 h2 _ _)
        | err => simp
        | ok n' =>
          simp only
          cases hl : parseTextToken l with
          | panic c' => exact absurd hl (parseTextToken_no_panic h1 h2 _ _)
          | err => simp
          | ok l' => simp

theorem peel_no_panic (s : Str) (cause : Cause) : peel s ≠ .panic cause := by
  unfold peel
  cases s with
  | nil => simp
  | cons c r =>
    simp only
    split
    · cases hn : pName r with
      | panic c' => exact absurd hn (pName_no_panic h1 _ _)
      | fail => simp
      | unsup => simp
      | ok nr =>
        simp only
        cases tagKind nr.1 with
        | none => simp
        | some k =>
          simp only
          cases hp : pParen nr.2 with
          | panic c' => exact absurd hp (pParen_no_panic h1 _ _)
          | unsup => simp
          | ok p r2 => exact done_no_panic h1 h2 _ _ _ _
          | fail => exact done_no_panic h1 h2 _ _ _ _
    · simp

end NoPanic
end SwimVerif.Envelope
