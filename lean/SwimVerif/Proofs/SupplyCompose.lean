/-
C14, supply lanes end to end for one remote: the agent-side `SupplyLane` (`Model/SupplyLane.lean`), the lane's byte
channel to the runtime (a FIFO of frames — C12), and the runtime's per-remote uplink queue with the write in flight
(`Model/UplinkSys.lean`, whose supply theorem is `Proofs/SupplyFifo.lean`). Proof-level composition: the pieces are
tied to the code separately (engines `sup`, `cl`, `wt`), the hand-over between them by the end-to-end rig.
-/
import SwimVerif.Proofs.SupplyLane
import SwimVerif.Proofs.SupplyFifo

set_option linter.unusedVariables false
set_option linter.unusedSimpArgs false
namespace SwimVerif.SupPath
open SwimVerif.WT

structure Sys where
  lane : Sup.Lane Bytes := {}           -- the supply lane inside the agent
  pipe : List (Sup.Frame Bytes) := []   -- frames written by the agent task, not yet read by the runtime's write task
  rt : USys := {}                       -- this remote's uplinks, write in flight, ghost histories
  -- ghost
  pushed : List Bytes := []             -- every item a handler supplied, in order

inductive Op
  | push (b : Bytes)    -- a handler supplies `b` (`Supply`)
  | sync (r : Nat)      -- a sync request of remote `r` reaches the lane (`SupplyLaneSync`)
  | write               -- the agent task calls `write_to_buffer` and writes the frame to the lane's channel
  | forward             -- the write task reads one frame of the lane and pushes it to this remote's uplinks
  | rt (op : UOp)       -- anything else happening at this remote: link messages, other lanes, write completions

/-- `l` = the supply lane's id in the runtime, `me` = this remote's id (a `synced` is addressed to one remote). -/
def step (reg : Registry) (l me : Nat) (s : Sys) : Op → Sys
  | .push b => { s with lane := s.lane.push b, pushed := s.pushed ++ [b] }
  | .sync r => { s with lane := s.lane.sync r }
  | .write => { s with lane := s.lane.write.1, pipe := s.pipe ++ s.lane.write.2.1.toList }
  | .forward =>
    match s.pipe with
    | [] => s
    | .event b :: rest => { s with pipe := rest, rt := ustep reg s.rt (.push l (.supply b)) }
    | .synced r :: rest =>
      if r = me then { s with pipe := rest, rt := ustep reg s.rt (.push l (.synced .supply)) }
      else { s with pipe := rest }
  | .rt op => { s with rt := ustep reg s.rt op }

def run (reg : Registry) (l me : Nat) (s : Sys) (ops : List Op) : Sys := ops.foldl (step reg l me) s

/-- The remote stays linked to the lane and the lane's responses reach the uplinks only through `forward`. -/
def okOp (l : Nat) : Op → Prop
  | .rt (.special a) => ∀ m, a ≠ .unlinked l m
  | .rt (.push lane _) => lane ≠ l
  | _ => True

structure Inv (l : Nat) (s : Sys) : Prop where
  u : UInv s.rt
  r : SInv l s.rt
  flow : pushedBodies l s.rt.pushed ++ (Sup.events s.pipe ++ s.lane.eventQ).map Body.raw = s.pushed.map Body.raw

theorem inv_init (l : Nat) : Inv l {} := ⟨uinv_init, sinv_init l, by simp [pushedBodies, Sup.events]⟩

theorem ustep_pushed_other (reg : Registry) (l : Nat) (u : USys) (op : UOp)
    (h : ∀ lane r, op = .push lane r → lane ≠ l) :
    pushedBodies l (ustep reg u op).pushed = pushedBodies l u.pushed := by
  cases op with
  | special a => simp [ustep]
  | push lane r =>
    have := h lane r rfl
    simp only [ustep]
    rw [pushedBodies_append, pushedBodies_single]
    simp [this]
  | done =>
    simp only [ustep]
    cases u.inflight <;> simp

theorem inv_step (reg : Registry) (l me : Nat) {s : Sys} (h : Inv l s) (op : Op) (hop : okOp l op) :
    Inv l (step reg l me s op) := by
  cases op with
  | push b =>
    refine ⟨h.u, h.r, ?_⟩
    show pushedBodies l s.rt.pushed ++ (Sup.events s.pipe ++ (s.lane.eventQ ++ [b])).map Body.raw
      = (s.pushed ++ [b]).map Body.raw
    rw [← List.append_assoc, List.map_append, ← List.append_assoc, h.flow]; simp
  | sync r => exact ⟨h.u, h.r, h.flow⟩
  | write =>
    refine ⟨h.u, h.r, ?_⟩
    obtain ⟨e1, _, _⟩ := Sup.write_spec s.lane
    show pushedBodies l s.rt.pushed ++
      (Sup.events (s.pipe ++ s.lane.write.2.1.toList) ++ s.lane.write.1.eventQ).map Body.raw = s.pushed.map Body.raw
    rw [Sup.events_append, List.append_assoc, e1]; exact h.flow
  | forward =>
    simp only [step]
    cases hp : s.pipe with
    | nil => simpa [hp] using h
    | cons f rest =>
      cases f with
      | event b =>
        simp only []
        have hso : supplyOp l (.push l (.supply b)) := fun _ => Or.inl ⟨b, rfl⟩
        refine ⟨uinv_step reg h.u (.push l (.supply b)), sinv_step reg l h.u h.r (.push l (.supply b)) hso, ?_⟩
        show pushedBodies l (s.rt.pushed ++ [(l, Resp.supply b)]) ++ (Sup.events rest ++ s.lane.eventQ).map Body.raw
          = s.pushed.map Body.raw
        rw [pushedBodies_append, pushedBodies_single, ← h.flow, hp]
        simp [Sup.events, respBody?]
      | synced r =>
        simp only []
        by_cases hr : r = me
        · simp only [hr, if_true]
          have hso : supplyOp l (.push l (.synced .supply)) := fun _ => Or.inr rfl
          refine ⟨uinv_step reg h.u (.push l (.synced .supply)),
            sinv_step reg l h.u h.r (.push l (.synced .supply)) hso, ?_⟩
          show pushedBodies l (s.rt.pushed ++ [(l, Resp.synced .supply)]) ++
            (Sup.events rest ++ s.lane.eventQ).map Body.raw = s.pushed.map Body.raw
          rw [pushedBodies_append, pushedBodies_single, ← h.flow, hp]
          simp [Sup.events, respBody?]
        · simp only [hr, if_false]
          refine ⟨h.u, h.r, ?_⟩
          show pushedBodies l s.rt.pushed ++ (Sup.events rest ++ s.lane.eventQ).map Body.raw = s.pushed.map Body.raw
          rw [← h.flow, hp]; simp [Sup.events]
  | rt op =>
    have hso : supplyOp l op := by
      cases op with
      | special a => exact hop
      | push lane r => intro hl; exact absurd hl hop
      | done => trivial
    refine ⟨uinv_step reg h.u op, sinv_step reg l h.u h.r op hso, ?_⟩
    show pushedBodies l (ustep reg s.rt op).pushed ++ (Sup.events s.pipe ++ s.lane.eventQ).map Body.raw
      = s.pushed.map Body.raw
    rw [ustep_pushed_other reg l s.rt op (fun lane r he => by subst he; exact hop)]
    exact h.flow

theorem inv_run (reg : Registry) (l me : Nat) (ops : List Op) : ∀ (s : Sys), Inv l s →
    (∀ op, op ∈ ops → okOp l op) → Inv l (run reg l me s ops) := by
  induction ops with
  | nil => intro s h _; exact h
  | cons op rest ih =>
    intro s h hall
    exact ih _ (inv_step reg l me h op (hall op List.mem_cons_self)) (fun o ho => hall o (List.mem_cons_of_mem _ ho))

end SwimVerif.SupPath
