/-
How the operations of the link registry (`Links`) change "remote `r` is linked to lane `id`"
(`Links.isLinked`), and what the iterators of `remove_lane` / `remove_all_links` enumerate (C04).
-/
import SwimVerif.Proofs.LinkLang

set_option linter.unusedSimpArgs false
set_option linter.unusedVariables false
namespace SwimVerif.WT

/-- `isLinked` as a function of the forward map. -/
def lk (f : List (Nat × LaneLinks)) (r id : Nat) : Bool :=
  match alGet f id with
  | some e => e.remotes.contains r
  | none => false

theorem isLinked_eq (l : Links) (r id : Nat) : l.isLinked r id = lk l.forward r id := rfl

theorem isLinked_congr {l l' : Links} (h : l'.forward = l.forward) (r id : Nat) : l'.isLinked r id = l.isLinked r id := by
  simp [isLinked_eq, h]

theorem mem_setErase (xs : List Nat) (x y : Nat) : x ∈ setErase xs y ↔ x ∈ xs ∧ x ≠ y := by
  induction xs with
  | nil => simp [setErase]
  | cons a as ih =>
    by_cases h : a = y
    · subst h
      simp only [setErase, if_true, ih, List.mem_cons]
      constructor
      · intro ⟨h1, h2⟩; exact ⟨Or.inr h1, h2⟩
      · intro ⟨h1, h2⟩
        rcases h1 with h1 | h1
        · exact absurd h1 h2
        · exact ⟨h1, h2⟩
    · simp only [setErase, h, if_false, List.mem_cons, ih]
      constructor
      · intro h1
        rcases h1 with h1 | h1
        · subst h1; exact ⟨Or.inl rfl, h⟩
        · exact ⟨Or.inr h1.1, h1.2⟩
      · intro ⟨h1, h2⟩
        rcases h1 with h1 | h1
        · exact Or.inl h1
        · exact Or.inr ⟨h1, h2⟩

theorem lk_alSet (f : List (Nat × LaneLinks)) (id : Nat) (e : LaneLinks) (r id' : Nat) :
    lk (alSet f id e) r id' = if id = id' then e.remotes.contains r else lk f r id' := by
  by_cases h : id = id' <;> simp [lk, alGet_alSet, h]

theorem lk_alErase (f : List (Nat × LaneLinks)) (id : Nat) (r id' : Nat) :
    lk (alErase f id) r id' = if id = id' then false else lk f r id' := by
  by_cases h : id = id' <;> simp [lk, alGet_alErase, h]

/-! ### insert -/

theorem addRemote_lk (l : Links) (id r r' id' : Nat) :
    lk (l.addRemote id r).forward r' id' = true ↔ lk l.forward r' id' = true ∨ (r' = r ∧ id' = id) := by
  unfold Links.addRemote
  by_cases hc : ((alGet l.forward id).getD {}).remotes.contains r = true
  · rw [if_pos hc]
    simp only [lk_alSet]
    by_cases hid : id = id'
    · subst hid
      simp only [if_true]
      have e1 : lk l.forward r' id = ((alGet l.forward id).getD {}).remotes.contains r' := by
        unfold lk; cases alGet l.forward id <;> simp
      rw [e1]
      constructor
      · exact fun h => Or.inl h
      · intro h
        rcases h with h | ⟨h, _⟩
        · exact h
        · subst h; exact hc
    · simp only [hid, if_false]
      constructor
      · exact fun h => Or.inl h
      · intro h
        rcases h with h | ⟨_, h⟩
        · exact h
        · exact absurd h.symm hid
  · rw [if_neg hc, updEntry_forward]
    simp only [lk_alSet]
    by_cases hid : id = id'
    · subst hid
      simp only [if_true]
      have e1 : lk l.forward r' id = ((alGet l.forward id).getD {}).remotes.contains r' := by
        unfold lk; cases alGet l.forward id <;> simp
      rw [e1]
      simp only [List.contains_eq_mem, List.mem_append, List.mem_singleton, decide_eq_true_eq]
      constructor
      · intro h
        rcases h with h | h
        · exact Or.inl h
        · exact Or.inr (by simp [h])
      · intro h
        rcases h with h | h
        · exact Or.inl h
        · exact Or.inr (by simpa using h)
    · simp only [hid, if_false]
      constructor
      · exact fun h => Or.inl h
      · intro h
        rcases h with h | ⟨_, h⟩
        · exact h
        · exact absurd h.symm hid

theorem insert_forward (l : Links) (id r : Nat) : (l.insert id r).forward = (l.addRemote id r).forward := by
  simp [Links.insert]

theorem isLinked_insert (l : Links) (id r r' id' : Nat) :
    (l.insert id r).isLinked r' id' = true ↔ l.isLinked r' id' = true ∨ (r' = r ∧ id' = id) := by
  rw [isLinked_eq, insert_forward, addRemote_lk]; rfl

/-! ### remove -/

theorem removeFromLane_lk (l : Links) (id r r' id' : Nat) :
    lk (l.removeFromLane id r).forward r' id' = true ↔ lk l.forward r' id' = true ∧ ¬ (r' = r ∧ id' = id) := by
  unfold Links.removeFromLane
  cases hg : alGet l.forward id with
  | none =>
    simp only []
    constructor
    · intro h
      refine ⟨h, fun ⟨_, h2⟩ => ?_⟩
      subst h2
      simp [lk, hg] at h
    · exact fun h => h.1
  | some e =>
    simp only []
    by_cases hc : e.remotes.contains r = true
    · rw [if_pos hc, updEntry_forward]
      simp only [lk_alSet]
      by_cases hid : id = id'
      · subst hid
        have e1 : lk l.forward r' id = e.remotes.contains r' := by unfold lk; rw [hg]
        rw [e1]
        simp only [if_true, List.contains_eq_mem, decide_eq_true_eq, mem_setErase]
        constructor
        · intro ⟨h1, h2⟩; exact ⟨h1, fun h3 => h2 (by simpa using h3)⟩
        · intro ⟨h1, h2⟩; exact ⟨h1, fun h3 => h2 (by simp [h3])⟩
      · simp only [hid, if_false]
        constructor
        · intro h; exact ⟨h, fun ⟨_, h2⟩ => hid h2.symm⟩
        · exact fun h => h.1
    · rw [if_neg hc]
      constructor
      · intro h
        refine ⟨h, fun ⟨h1, h2⟩ => ?_⟩
        subst h1; subst h2
        simp only [lk, hg] at h
        exact hc h
      · exact fun h => h.1

theorem removeCore_lk (l : Links) (id r r' id' : Nat) :
    lk (l.removeCore id r).forward r' id' = true ↔ lk l.forward r' id' = true ∧ ¬ (r' = r ∧ id' = id) := by
  unfold Links.removeCore
  cases hg : alGet l.forward id with
  | none =>
    simp only []
    constructor
    · intro h
      refine ⟨h, fun ⟨_, h2⟩ => ?_⟩
      subst h2
      simp [lk, hg] at h
    · exact fun h => h.1
  | some e =>
    simp only [setAgg_forward]
    exact removeFromLane_lk l id r r' id'

theorem remove_forward (l : Links) (id r : Nat) : (l.remove id r).1.forward = (l.removeCore id r).forward := by
  unfold Links.remove
  split
  · split <;> rfl
  · rfl

theorem isLinked_remove (l : Links) (id r r' id' : Nat) :
    (l.remove id r).1.isLinked r' id' = true ↔ l.isLinked r' id' = true ∧ ¬ (r' = r ∧ id' = id) := by
  rw [isLinked_eq, remove_forward, removeCore_lk]; rfl

/-! ### remove_remote -/

theorem foldl_removeFromLane_lk (r : Nat) (lanes : List Nat) : ∀ (acc : Links) (r' id' : Nat),
    lk (lanes.foldl (fun acc id => acc.removeFromLane id r) acc).forward r' id' = true →
    lk acc.forward r' id' = true := by
  induction lanes with
  | nil => intro acc r' id' h; exact h
  | cons a as ih =>
    intro acc r' id' h
    simp only [List.foldl] at h
    exact ((removeFromLane_lk acc a r r' id').mp (ih _ r' id' h)).1

theorem isLinked_removeRemote (l : Links) (r r' id' : Nat) (h : (l.removeRemote r).isLinked r' id' = true) :
    l.isLinked r' id' = true := by
  rw [isLinked_eq] at h
  unfold Links.removeRemote at h
  simp only [setAgg_forward] at h
  have := foldl_removeFromLane_lk r _ _ r' id' h
  exact this

/-! ### operations that leave the links alone -/

theorem isLinked_countSingle (l : Links) (id r' id' : Nat) : (l.countSingle id).isLinked r' id' = l.isLinked r' id' := by
  apply isLinked_congr
  unfold Links.countSingle
  split
  · simp [Links.addEvents]; split <;> rfl
  · rfl

theorem isLinked_countBroadcast (l : Links) (id r' id' : Nat) :
    (l.countBroadcast id).isLinked r' id' = l.isLinked r' id' := by
  apply isLinked_congr
  unfold Links.countBroadcast
  split
  · simp [Links.addEvents]; split <;> rfl
  · rfl

theorem linkedFrom_countBroadcast (l : Links) (id id' : Nat) : (l.countBroadcast id).linkedFrom id' = l.linkedFrom id' := by
  have : (l.countBroadcast id).forward = l.forward := by
    unfold Links.countBroadcast
    split
    · simp [Links.addEvents]; split <;> rfl
    · rfl
  simp [Links.linkedFrom, this]

theorem isLinked_registerReporter (l : Links) (id r' id' : Nat) :
    (l.registerReporter id).isLinked r' id' = l.isLinked r' id' := by
  simp only [isLinked_eq, Links.registerReporter, lk_alSet]
  split
  · rename_i h; subst h
    unfold lk
    cases alGet l.forward id <;> simp
  · rfl

theorem mem_linkedFrom (l : Links) (r id : Nat) : r ∈ l.linkedFrom id ↔ l.isLinked r id = true := by
  unfold Links.linkedFrom Links.isLinked
  cases alGet l.forward id <;> simp

/-! ### remove_lane -/

theorem unlinkBack_snd (id : Nat) (acc : Links × List (Nat × Bool)) (r : Nat) :
    (unlinkBack id acc r).2.map (·.1) = acc.2.map (·.1) ++ [r] := by
  unfold unlinkBack
  split
  · split <;> simp
  · simp

theorem removeLane_fold_snd (id : Nat) (rs : List Nat) : ∀ (acc : Links × List (Nat × Bool)),
    (rs.foldl (unlinkBack id) acc).2.map (·.1) = acc.2.map (·.1) ++ rs := by
  induction rs with
  | nil => intro acc; simp
  | cons r rest ih =>
    intro acc
    simp only [List.foldl]
    rw [ih, unlinkBack_snd]
    simp

theorem removeLane_targets (l : Links) (id : Nat) : (l.removeLane id).2.map (·.1) = l.linkedFrom id := by
  unfold Links.removeLane Links.linkedFrom
  cases alGet l.forward id with
  | none => rfl
  | some e => simp only []; rw [removeLane_fold_snd]; rfl

theorem dropLane_forward (l : Links) (id : Nat) (e : LaneLinks) : (l.dropLane id e).forward = alErase l.forward id := by
  unfold Links.dropLane
  simp only [setAgg_forward]
  split <;> rfl

theorem isLinked_removeLane (l : Links) (id r' id' : Nat) :
    (l.removeLane id).1.isLinked r' id' = true ↔ l.isLinked r' id' = true ∧ id' ≠ id := by
  rw [isLinked_eq]
  unfold Links.removeLane
  cases hg : alGet l.forward id with
  | none =>
    simp only []
    constructor
    · intro h
      refine ⟨h, fun h2 => ?_⟩
      subst h2
      simp [lk, hg] at h
    · exact fun h => h.1
  | some e =>
    simp only []
    rw [(removeLane_fold_fields id e.remotes (l.dropLane id e, [])).1, dropLane_forward, lk_alErase]
    by_cases hid : id = id'
    · subst hid; simp
    · simp only [hid, if_false]
      constructor
      · intro h; exact ⟨h, fun h2 => hid h2.symm⟩
      · exact fun h => h.1

/-! ### remove_all_links -/

theorem lk_map_clear (f : List (Nat × LaneLinks)) (r id : Nat) : lk (f.map clearEntry) r id = false := by
  unfold lk
  cases hg : alGet (f.map clearEntry) id with
  | none => rfl
  | some e2 =>
    obtain ⟨e, _, he⟩ := alGet_map_clear f id e2 hg
    subst he
    rfl

theorem isLinked_removeAll (l : Links) (r id : Nat) : l.removeAllLinks.1.isLinked r id = false := by
  rw [isLinked_eq]
  unfold Links.removeAllLinks
  simp only [(zeroFold_fields l.forward l.removeAllBase).1]
  have : l.removeAllBase.forward = l.forward.map clearEntry := by
    unfold Links.removeAllBase; split <;> rfl
  rw [this]
  exact lk_map_clear _ r id

theorem alGet_of_mem_nodup : ∀ (f : List (Nat × LaneLinks)), (keysOf f).Nodup → ∀ (p : Nat × LaneLinks), p ∈ f →
    alGet f p.1 = some p.2 := by
  intro f
  induction f with
  | nil => intro _ p hp; simp at hp
  | cons q rest ih =>
    intro hn p hp
    obtain ⟨k, e⟩ := q
    simp only [keysOf, List.map_cons, List.nodup_cons] at hn
    rcases List.mem_cons.mp hp with rfl | hm
    · simp [alGet]
    · have hne : ¬ k = p.1 := by
        intro he
        apply hn.1
        rw [he]
        exact List.mem_map_of_mem (f := (·.1)) hm
      simp only [alGet, hne, if_false]
      exact ih hn.2 p hm

theorem mem_pairs (l : Links) (id r : Nat) (h : (id, r) ∈ l.pairs) :
    ∃ p, p ∈ l.forward ∧ p.1 = id ∧ r ∈ p.2.remotes := by
  unfold Links.pairs at h
  simp only [List.mem_flatMap, List.mem_map, Prod.mk.injEq] at h
  obtain ⟨p, hp, r', hr', h1, h2⟩ := h
  subst h2
  exact ⟨p, hp, h1, hr'⟩

theorem isLinked_of_mem_pairs {l : Links} (hk : (keysOf l.forward).Nodup) (id r : Nat) (h : (id, r) ∈ l.pairs) :
    l.isLinked r id = true := by
  obtain ⟨p, hp, h1, h2⟩ := mem_pairs l id r h
  have := alGet_of_mem_nodup l.forward hk p hp
  rw [h1] at this
  simp [Links.isLinked, this, h2]

theorem pairs_nodup_aux : ∀ (f : List (Nat × LaneLinks)), (keysOf f).Nodup → (∀ p ∈ f, p.2.remotes.Nodup) →
    (f.flatMap (fun (p : Nat × LaneLinks) => p.2.remotes.map (fun r => (p.1, r)))).Nodup := by
  intro f
  induction f with
  | nil => intro _ _; simp
  | cons q rest ih =>
    intro hk hr
    simp only [keysOf, List.map_cons, List.nodup_cons] at hk
    simp only [List.flatMap_cons]
    rw [List.nodup_append]
    refine ⟨?_, ih hk.2 (fun p hp => hr p (List.mem_cons_of_mem _ hp)), ?_⟩
    · have := hr q (by simp)
      refine List.Pairwise.map _ ?_ this
      intro a b hab hc
      exact hab (Prod.mk.inj hc).2
    · intro a ha b hb hab
      subst hab
      simp only [List.mem_map] at ha
      obtain ⟨r, _, rfl⟩ := ha
      simp only [List.mem_flatMap, List.mem_map, Prod.mk.injEq] at hb
      obtain ⟨p, hp, r', _, h1, _⟩ := hb
      apply hk.1
      rw [← h1]
      exact List.mem_map_of_mem (f := (·.1)) hp

theorem pairs_nodup {l : Links} (h : TInv l) : l.pairs.Nodup := by
  apply pairs_nodup_aux l.forward h.keys
  intro p hp
  exact h.nodup p.1 p.2 (alGet_of_mem_nodup l.forward h.keys p hp)

theorem linkedFrom_nodup {l : Links} (h : TInv l) (id : Nat) : (l.linkedFrom id).Nodup := by
  unfold Links.linkedFrom
  cases hg : alGet l.forward id with
  | none => simp
  | some e => exact h.nodup id e hg

end SwimVerif.WT
