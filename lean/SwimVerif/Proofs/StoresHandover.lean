/-
C13: the hand-over invariant of the in-memory store, for every op sequence.
-/
import SwimVerif.Proofs.Stores

set_option linter.unusedVariables false
namespace SwimVerif.Store.InMem

def isInUse : Option Entry → Bool
  | some (.inUse _) => true
  | _ => false

@[simp, grind =] theorem isInUse_some_inUse (w : Option Nat) : isInUse (some (.inUse w)) = true := rfl
@[simp, grind =] theorem isInUse_some_idle (st : NodeState) : isInUse (some (.idle st)) = false := rfl
@[simp, grind =] theorem isInUse_none : isInUse none = false := rfl

structure HInv (s : St) : Prop where
  u : ∀ a b p u st st', aget s.slots a = some (.live p u st) → aget s.slots b = some (.live p u st') → a = b
  j1 : ∀ a p u st, aget s.slots a = some (.live p u st) → isInUse (aget s.nodes (p, u)) = true
  j1' : ∀ a p u c st, aget s.slots a = some (.waiting p u c) → aget s.chans c = some (.full st) →
    isInUse (aget s.nodes (p, u)) = true
  j2 : ∀ a b p u c st st', aget s.slots a = some (.waiting p u c) → aget s.chans c = some (.full st) →
    aget s.slots b ≠ some (.live p u st')
  j3 : ∀ a b p u c c' st st', aget s.slots a = some (.waiting p u c) → aget s.chans c = some (.full st) →
    aget s.slots b = some (.waiting p u c') → aget s.chans c' = some (.full st') → a = b
  i5 : ∀ a b p u p' u' c, aget s.slots a = some (.waiting p u c) → aget s.slots b = some (.waiting p' u' c) → a = b
  i4 : ∀ p' u' c a p u, aget s.nodes (p', u') = some (.inUse (some c)) → aget s.slots a = some (.waiting p u c) →
    p = p' ∧ u = u'
  i8 : ∀ a p u c, aget s.slots a = some (.waiting p u c) → c < s.nextChan
  i9 : ∀ p u c, aget s.nodes (p, u) = some (.inUse (some c)) → c < s.nextChan

theorem hinv_init : HInv init := by
  constructor <;> intros <;> simp_all [init, aget]

theorem hinv_data (s : St) (h : HInv s) (slot : Nat) (d : DOp) : HInv (step s (.data slot d)).1 := by
  simp only [step]
  split
  · rename_i p uri st hs
    obtain ⟨u, j1, j1', j2, j3, i5, i4, i8, i9⟩ := h
    constructor <;> simp only [aget_aset] <;> intros <;> grind
  · exact h

theorem hinv_open (s : St) (h : HInv s) (slot p : Nat) (uri : Bytes) : HInv (step s (.opn slot p uri)).1 := by
  simp only [step]
  split
  · exact h
  · rename_i hfree
    have hfree' : aget s.slots slot = none := by
      cases hh : aget s.slots slot with
      | none => rfl
      | some x => simp [hh] at hfree
    simp only [openNode]
    obtain ⟨u, j1, j1', j2, j3, i5, i4, i8, i9⟩ := h
    split
    · constructor <;> simp only [aget_aset] <;> intros <;> grind
    · rename_i w hw
      cases w with
      | none => constructor <;> simp only [aget_aset, dropSender] <;> intros <;> grind
      | some c0 =>
        simp only [dropSender]
        split <;> constructor <;> simp only [aget_aset] <;> intros <;> grind
    · constructor <;> simp only [aget_aset] <;> intros <;> grind

theorem hinv_poll (s : St) (h : HInv s) (slot : Nat) : HInv (step s (.poll slot)).1 := by
  simp only [step]
  split
  · rename_i p uri c hs
    simp only [pollSlot]
    obtain ⟨u, j1, j1', j2, j3, i5, i4, i8, i9⟩ := h
    split
    · constructor <;> simp only [aget_aset, aget_adel] <;> intros <;> grind
    · constructor <;> simp only [aget_aset, aget_adel] <;> intros <;> grind
    · constructor <;> assumption
  · exact h

theorem hinv_dropLive (s : St) (h : HInv s) (slot p : Nat) (uri : Bytes) (st : NodeState)
    (hs : aget s.slots slot = some (.live p uri st)) : HInv (dropLive s slot p uri st) := by
  obtain ⟨u, j1, j1', j2, j3, i5, i4, i8, i9⟩ := h
  simp only [dropLive]
  split
  · split
    · constructor <;> simp only [aget_aset, aget_adel] <;> intros <;> grind
    · constructor <;> simp only [aget_aset, aget_adel] <;> intros <;> grind
  · constructor <;> simp only [aget_aset, aget_adel] <;> intros <;> grind

theorem hinv_drop (s : St) (h : HInv s) (slot : Nat) : HInv (step s (.drp slot)).1 := by
  simp only [step]
  split
  · rename_i p uri st hs
    exact hinv_dropLive s h slot p uri st hs
  · rename_i p uri c hs
    obtain ⟨u, j1, j1', j2, j3, i5, i4, i8, i9⟩ := h
    split
    · rename_i st hc
      have key : ∀ b c' st', aget s.slots b = some (.waiting p uri c') → aget s.chans c' = some (.full st') →
          b = slot := fun b c' st' h1 h2 => j3 b slot p uri c' c st' st h1 h2 hs hc
      have key2 : ∀ b st', aget s.slots b ≠ some (.live p uri st') := fun b st' => j2 slot b p uri c st st' hs hc
      simp only [dropLive]
      split
      · rename_i c1 heq
        have key3 : ∀ a p1 u1, aget s.slots a = some (.waiting p1 u1 c1) → p1 = p ∧ u1 = uri :=
          fun a p1 u1 h1 => i4 p uri c1 a p1 u1 heq h1
        split
        · constructor
          case j3 =>
            simp only [aget_aset, aget_adel]
            intro a b p1 u1 c2 c' st1 st' h h1 h2 h3
            by_cases ea : a = slot
            · simp [ea] at h
            by_cases eb : b = slot
            · simp [eb] at h2
            simp only [ea, eb, ↓reduceIte] at h h2
            by_cases e2 : c2 = c1 <;> by_cases e' : c' = c1
            · subst e2; subst e'; exact i5 a b _ _ _ _ _ h h2
            · subst e2
              obtain ⟨rfl, rfl⟩ := key3 a p1 u1 h
              by_cases ec : c' = c
              · subst ec; exact absurd (i5 b slot _ _ _ _ _ h2 hs) eb
              · simp only [e', ↓reduceIte, ec] at h3
                exact absurd (key b c' st' h2 h3) eb
            · subst e'
              obtain ⟨rfl, rfl⟩ := key3 b p1 u1 h2
              by_cases ec : c2 = c
              · subst ec; exact absurd (i5 a slot _ _ _ _ _ h hs) ea
              · simp only [e2, ↓reduceIte, ec] at h1
                exact absurd (key a c2 st1 h h1) ea
            · by_cases ec : c2 = c
              · subst ec; exact absurd (i5 a slot _ _ _ _ _ h hs) ea
              by_cases ec' : c' = c
              · subst ec'; exact absurd (i5 b slot _ _ _ _ _ h2 hs) eb
              simp only [e2, e', ↓reduceIte, ec, ec'] at h1 h3
              exact j3 a b p1 u1 c2 c' st1 st' h h1 h2 h3
          all_goals (simp only [aget_aset, aget_adel]; intros; grind)
        · constructor <;> simp only [aget_aset, aget_adel] <;> intros <;> grind
      · constructor <;> simp only [aget_aset, aget_adel] <;> intros <;> grind
    · constructor <;> simp only [aget_aset, aget_adel] <;> intros <;> grind
  · exact h

theorem hinv_step (s : St) (h : HInv s) (op : Op) : HInv (step s op).1 := by
  cases op with
  | opn slot p uri => exact hinv_open s h slot p uri
  | poll slot => exact hinv_poll s h slot
  | drp slot => exact hinv_drop s h slot
  | data slot d => exact hinv_data s h slot d
  | reopen => exact h

theorem hinv_run (ops : List Op) : ∀ s, HInv s → HInv (run s ops) := by
  induction ops with
  | nil => intro s h; exact h
  | cons o os ih => intro s h; exact ih _ (hinv_step s h o)

end SwimVerif.Store.InMem
