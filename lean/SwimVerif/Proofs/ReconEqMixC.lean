/-
C15, mixed layouts: the record / attribute cases, the induction, and the result — equal values in ANY two layouts
compare `Some(true)`.
-/
import SwimVerif.Proofs.ReconEqMixB

namespace SwimVerif.ReconEq
open SwimVerif.Recon

/-! ### records, aligned -/

theorem alv_recnil (i : Items) (hI : AlI i) : AlV (.record .nil i) := by
  intro ch1 ch2 k1 a1 s1 k2 a2 s2 c sk r1 r2 hT hK
  rw [vtype_recnil] at hK
  simp only [evsG, evsGA, List.nil_append, List.cons_append, List.append_assoc]
  have hend : Ok (S (F (keyOf sk) true 0 (pushItems {} i) :: F k1 true a1 c :: s1) none)
      (S (F (keyOf sk) true 0 (pushItems {} i) :: F k2 true a2 c :: s2) none) (.endRecord :: r1) (.endRecord :: r2) := by
    apply Ok_match rfl
    · simp only [feed_endRecord]; exact beq_of_SR none (hT _)
    · simp only [feed_endRecord, itemsLen_pushItems_nil]; exact hK
  have hitems := (hI ch1 ch2 (keyOf sk) 0 (F k1 true a1 c :: s1) (keyOf sk) 0 (F k2 true a2 c :: s2) {} _ _
    (fun c' => SR.same _ (hT c)) hend).1
  apply Ready_match rfl rfl
  · simp only [feed_startBody_inBody]; exact beq_of_SR none (SR.same _ (hT c))
  · simp only [feed_startBody_inBody]; exact hitems

/-- A record with attributes after its first `StartAttribute`. -/
def AlRT (n : List Char) (v : Value) (r : Attrs) (i : Items) : Prop :=
  ∀ (ch1 ch2 : List Char → Bool) (k1 : KeyState) (a1 : Nat) (s1 : List BuilderState) (k2 : KeyState) (a2 : Nat)
    (s2 : List BuilderState) (c : ItemCollection) (sk : Option ValueType) (r1 r2 : List Event),
    TopRel k1 a1 s1 k2 a2 s2 →
    Ok (S (F k1 true a1 (c.push (mkItem sk (vtype (.record (.cons n v r) i)))) :: s1) none)
      (S (F k2 true a2 (c.push (mkItem sk (vtype (.record (.cons n v r) i)))) :: s2) none) r1 r2 →
    Ok (S (F .attr true 0 {} :: F (keyOf sk) false 0 {} :: F k1 true a1 c :: s1) none)
      (S (F .attr true 0 {} :: F (keyOf sk) false 0 {} :: F k2 true a2 c :: s2) none)
      (bodyG ch1 n v ++ .endAttr :: (evsGA ch1 r ++ .startBody :: (evsGI ch1 i ++ .endRecord :: r1)))
      (bodyG ch2 n v ++ .endAttr :: (evsGA ch2 r ++ .startBody :: (evsGI ch2 i ++ .endRecord :: r2)))

theorem alrt (n : List Char) (v : Value) (r : Attrs) (i : Items) (hB : AlB n v) (hA : AlA r) (hI : AlI i) :
    AlRT n v r i := by
  intro ch1 ch2 k1 a1 s1 k2 a2 s2 c sk r1 r2 hT hK
  have hvt : vtype (.record (.cons n v r) i) = .record (0 + (vtype v).len + alen r) (ilen i) := by
    simp [vtype, alen]
  rw [hvt] at hK
  have hend : Ok (S (F (keyOf sk) true (0 + (vtype v).len + alen r) (pushItems {} i) :: F k1 true a1 c :: s1) none)
      (S (F (keyOf sk) true (0 + (vtype v).len + alen r) (pushItems {} i) :: F k2 true a2 c :: s2) none)
      (.endRecord :: r1) (.endRecord :: r2) := by
    apply Ok_match rfl
    · simp only [feed_endRecord]; exact beq_of_SR none (hT _)
    · simp only [feed_endRecord, itemsLen_pushItems_nil]; exact hK
  have hitems := (hI ch1 ch2 (keyOf sk) _ (F k1 true a1 c :: s1) (keyOf sk) _ (F k2 true a2 c :: s2) {} _ _
    (fun c' => SR.same _ (hT c)) hend).1
  have hsb : Ok (S (F (keyOf sk) false (0 + (vtype v).len + alen r) {} :: F k1 true a1 c :: s1) none)
      (S (F (keyOf sk) false (0 + (vtype v).len + alen r) {} :: F k2 true a2 c :: s2) none)
      (.startBody :: (evsGI ch1 i ++ .endRecord :: r1)) (.startBody :: (evsGI ch2 i ++ .endRecord :: r2)) := by
    apply Ok_match rfl
    · simp only [feed_startBody_header]; exact beq_of_SR none (SR.same _ (hT c))
    · simp only [feed_startBody_header]; exact hitems
  have hattrs := hA ch1 ch2 (keyOf sk) (0 + (vtype v).len) {} (F k1 true a1 c :: s1) (F k2 true a2 c :: s2) _ _
    (hT c) hsb
  exact hB ch1 ch2 (keyOf sk) 0 {} (F k1 true a1 c :: s1) (F k2 true a2 c :: s2) _ _ (hT c) hattrs

theorem alv_reccons (n : List Char) (v : Value) (r : Attrs) (i : Items) (hRT : AlRT n v r i) :
    AlV (.record (.cons n v r) i) := by
  intro ch1 ch2 k1 a1 s1 k2 a2 s2 c sk r1 r2 hT hK
  simp only [evsG, evsGA_cons, List.cons_append, List.append_assoc, List.nil_append]
  apply Ready_match (Event.beq_refl _) rfl
  · simp only [feed_startAttr_inBody, feed_startAttr_header]
    exact beq_of_SR none (SR.same _ (SR.same _ (hT c)))
  · simp only [feed_startAttr_inBody, feed_startAttr_header]
    exact hRT ch1 ch2 k1 a1 s1 k2 a2 s2 c sk r1 r2 hT hK

theorem qv_reccons (n : List Char) (v : Value) (r : Attrs) (i : Items) (hRT : AlRT n v r i) :
    QV (.record (.cons n v r) i) := by
  intro ch1 ch2 k a s1 s2 r1 r2 _ hT hR
  simp only [evsG, evsGA_cons, List.cons_append, List.append_assoc, List.nil_append]
  apply Ok_skipSB_left rfl rfl (Event.beq_refl _)
  · simp only [feed_startBody_nk, feed_startAttr_inBody, feed_startAttr_header]
    exact beq_of_SR none (SR.same _ (SR.same _ (hT {})))
  · simp only [feed_startBody_nk, feed_startAttr_inBody, feed_startAttr_header]
    exact hRT ch1 ch2 .noKey 0 (F k true a {} :: s1) k a s2 {} none r1 r2 hT hR.ok

/-! ### attributes -/

theorem ala_nil : AlA .nil := by
  intro ch1 ch2 key m it s1 s2 r1 r2 _ hK
  simpa [evsGA, alen] using hK

theorem ala_cons (n : List Char) (v : Value) (r : Attrs) (hB : AlB n v) (hA : AlA r) : AlA (.cons n v r) := by
  intro ch1 ch2 key m it s1 s2 r1 r2 hS hK
  have e : m + alen (.cons n v r) = m + (vtype v).len + alen r := by simp [alen]; omega
  rw [e] at hK
  have hr := hA ch1 ch2 key (m + (vtype v).len) it s1 s2 r1 r2 hS hK
  have hb := hB ch1 ch2 key m it s1 s2 _ _ hS hr
  rw [evsGA_cons, evsGA_cons]
  simp only [List.cons_append, List.append_assoc, List.nil_append]
  apply Ok_match (Event.beq_refl _)
  · simp only [feed_startAttr_header]; exact beq_of_SR none (SR.same _ (SR.same _ hS))
  · simp only [feed_startAttr_header]; exact hb

theorem alb (n : List Char) (v : Value) (hv : TV v) : AlB n v := by
  intro ch1 ch2 key m it s1 s2 R1 R2 hS hK
  by_cases hve : v = .extant
  · subst hve
    rw [vtype_len_extant] at hK
    simp only [bodyG, List.nil_append]
    apply Ok_match rfl
    · simp only [feed_endAttr_empty]; exact beq_of_SR none (SR.same _ hS)
    · simp only [feed_endAttr_empty]; exact hK
  · by_cases h1 : (ch1 n && implicitBody v) = true
    · have hi : implicitBody v = true := by simp only [Bool.and_eq_true] at h1; exact h1.2
      obtain ⟨i, rfl⟩ := implicitBody_shape hi
      obtain ⟨hAl, hQb⟩ := hv.2.2 i rfl
      rw [vtype_recnil] at hK
      by_cases h2 : (ch2 n && implicitBody (.record .nil i)) = true
      · -- implicit on both sides
        rw [bodyG_implicit h1, bodyG_implicit h2]
        have hend : Ok (S (F .attr true 0 (pushItems {} i) :: F key false m it :: s1) none)
            (S (F .attr true 0 (pushItems {} i) :: F key false m it :: s2) none) (.endAttr :: R1) (.endAttr :: R2) := by
          apply Ok_match rfl
          · simp only [feed_endAttr_implicit i hi]; exact beq_of_SR none (SR.same _ hS)
          · simp only [feed_endAttr_implicit i hi]; exact hK
        exact (hAl ch1 ch2 .attr 0 (F key false m it :: s1) .attr 0 (F key false m it :: s2) {} _ _
          (fun c => SR.same _ (SR.same _ hS)) hend).1
      · -- implicit on the left, explicit on the right
        rw [bodyG_implicit h1, bodyG_braced h2]
        simp only [List.cons_append, List.append_assoc, List.nil_append]
        exact (hQb ch2 ch1 key m it s2 s1 R2 R1 hS.symm hi hK.symm).symm
    · by_cases h2 : (ch2 n && implicitBody v) = true
      · -- explicit on the left, implicit on the right
        have hi : implicitBody v = true := by simp only [Bool.and_eq_true] at h2; exact h2.2
        obtain ⟨i, rfl⟩ := implicitBody_shape hi
        obtain ⟨_, hQb⟩ := hv.2.2 i rfl
        rw [vtype_recnil] at hK
        rw [bodyG_braced h1, bodyG_implicit h2]
        simp only [List.cons_append, List.append_assoc, List.nil_append]
        exact hQb ch1 ch2 key m it s1 s2 R1 R2 hS hi hK
      · -- the value as it is on both sides
        rw [bodyG_explicit hve h1, bodyG_explicit hve h2]
        have hend : Ok (S (F .attr true 0 (({} : ItemCollection).push (.value (vtype v))) :: F key false m it :: s1) none)
            (S (F .attr true 0 (({} : ItemCollection).push (.value (vtype v))) :: F key false m it :: s2) none)
            (.endAttr :: R1) (.endAttr :: R2) := by
          apply Ok_match rfl
          · simp only [feed_endAttr_one]; exact beq_of_SR none (SR.same _ hS)
          · simp only [feed_endAttr_one]; exact hK
        exact (hv.1 ch1 ch2 .attr 0 (F key false m it :: s1) .attr 0 (F key false m it :: s2) {} none _ _
          (fun c => SR.same _ (SR.same _ hS)) hend).ok

/-! ### the left stream one `StartBody` behind -/

theorem qv_recnil (i : Items) (hQ : QIs i) : QV (.record .nil i) := by
  intro ch1 ch2 k a s1 s2 r1 r2 hS hT hR
  rw [vtype_recnil] at hR
  simp only [evsG, evsGA, List.nil_append, List.cons_append, List.append_assoc]
  apply Ok_match rfl
  · simp only [feed_startBody_nk]; exact beq_of_SR none (SR.same _ (SR.same _ hS))
  · simp only [feed_startBody_nk]; exact hQ ch1 ch2 k a s1 s2 r1 r2 hS hT hR

theorem qis_nil : QIs .nil := by
  intro ch1 ch2 k a s1 s2 r1 r2 _ _ hR
  simp only [evsGI, List.nil_append]
  obtain ⟨e1, e2, a', b', rfl, rfl, he, hs, hb, hk⟩ := hR
  have h0 : ilen .nil = ({} : ItemCollection).itemsLen := by simp [ilen]; rfl
  rw [h0] at hs hb hk
  apply Ok_skip2_left he
  · simp only [feed_startBody_nk, feed_endRecord_nk]; exact hs
  · simp only [feed_startBody_nk, feed_endRecord_nk]; exact hb
  · simp only [feed_startBody_nk, feed_endRecord_nk]; exact hk

/-- The `EndRecord` of the record both sides have open, in the shifted mode. -/
theorem qis_end (i : Items) (k : KeyState) (a : Nat) (s1 s2 : List BuilderState) (r1 r2 : List Event)
    (hT : ∀ c, SR (F .noKey true 0 c :: F k true a {} :: s1) (F k true a c :: s2))
    (hR : Ready (S (F .noKey true 0 (({} : ItemCollection).push (.value (.record 0 (ilen i)))) :: F k true a {} :: s1) none)
      (S (F k true a (({} : ItemCollection).push (.value (.record 0 (ilen i)))) :: s2) none) r1 r2) :
    Ready (S (F .noKey true 0 (pushItems {} i) :: F .noKey true 0 {} :: F k true a {} :: s1) none)
      (S (F .noKey true 0 (pushItems {} i) :: F k true a {} :: s2) none) (.endRecord :: r1) (.endRecord :: r2) := by
  refine ⟨.endRecord, .endRecord, r1, r2, rfl, rfl, rfl, ?_, ?_, ?_⟩
  · rw [feed_endRecord_nk_snd, feed_endRecord_nk_snd]
  · simp only [feed_endRecord_nk, itemsLen_pushItems_nil]; exact beq_of_SR none (hT _)
  · simp only [feed_endRecord_nk, itemsLen_pushItems_nil]; exact hR.ok

theorem qis_val (x : Value) (rest : Items) (hx : QV x) (hr : AlI rest) : QIs (.val x rest) := by
  intro ch1 ch2 k a s1 s2 r1 r2 hS hT hR
  have hend := qis_end (.val x rest) k a s1 s2 r1 r2 hT hR
  simp only [pushItems] at hend
  have hT2 : TopRel .noKey 0 (F .noKey true 0 {} :: F k true a {} :: s1) .noKey 0 (F k true a {} :: s2) :=
    fun c => SR.same _ (hT {})
  have hcont := ali_ready rest hr ch1 ch2 _ _ _ _ _ _ _ _ _ hT2 hend
  simp only [evsGI, List.append_assoc]
  exact hx ch1 ch2 .noKey 0 (F k true a {} :: s1) (F k true a {} :: s2) _ _ (SR.same _ hS) hT2 hcont

theorem qis_slot (k0 v : Value) (rest : Items) (hk : QV k0) (hv : AlV v) (hr : AlI rest) :
    QIs (.slot k0 v rest) := by
  intro ch1 ch2 k a s1 s2 r1 r2 hS hT hR
  have hend := qis_end (.slot k0 v rest) k a s1 s2 r1 r2 hT hR
  simp only [pushItems] at hend
  have hT2 : TopRel .noKey 0 (F .noKey true 0 {} :: F k true a {} :: s1) .noKey 0 (F k true a {} :: s2) :=
    fun c => SR.same _ (hT {})
  have htail := slot_tail v rest hv hr ch1 ch2 _ _ _ _ _ _ {} (vtype k0) _ _ hT2 hend.ok
  simp only [evsGI, List.append_assoc, List.cons_append]
  exact hk ch1 ch2 .noKey 0 (F k true a {} :: s1) (F k true a {} :: s2) _ _ (SR.same _ hS) hT2 htail

/-- The end of an attribute body that is explicit on the left and implicit on the right. -/
theorem qib_end (i : Items) (hi : implicitBody (.record .nil i) = true) (key : KeyState) (m : Nat)
    (it : ItemCollection) (s1 s2 : List BuilderState) (R1 R2 : List Event) (hS : SR s1 s2)
    (hK : Ok (S (F key false (m + (ValueType.record 0 (ilen i)).len) it :: s1) none)
      (S (F key false (m + (ValueType.record 0 (ilen i)).len) it :: s2) none) R1 R2) :
    Ok (S (F .noKey true 0 (pushItems {} i) :: F .attr true 0 {} :: F key false m it :: s1) none)
      (S (F .attr true 0 (pushItems {} i) :: F key false m it :: s2) none)
      (.endRecord :: .endAttr :: R1) (.endAttr :: R2) := by
  apply Ok_skipER_left rfl rfl rfl
  · simp only [feed_endRecord_nk, feed_endAttr_one, feed_endAttr_implicit i hi, itemsLen_pushItems_nil]
    exact beq_of_SR none (SR.same _ hS)
  · simp only [feed_endRecord_nk, feed_endAttr_one, feed_endAttr_implicit i hi, itemsLen_pushItems_nil]
    exact hK

theorem qib_nil : QIb .nil := by
  intro ch1 ch2 key m it s1 s2 R1 R2 _ hi _
  simp [implicitBody] at hi

theorem qib_val (x : Value) (rest : Items) (hx : QV x) (hr : AlI rest) : QIb (.val x rest) := by
  intro ch1 ch2 key m it s1 s2 R1 R2 hS hi hK
  have hne : rest ≠ .nil := by intro h; subst h; simp [implicitBody] at hi
  have hfin := qib_end (.val x rest) hi key m it s1 s2 R1 R2 hS hK
  simp only [pushItems] at hfin
  have hT2 : TopRel .noKey 0 (F .attr true 0 {} :: F key false m it :: s1) .attr 0 (F key false m it :: s2) :=
    fun c => SR.left c (SR.same _ hS)
  have hcont := (hr ch1 ch2 _ _ _ _ _ _ _ _ _ hT2 hfin).2 hne
  simp only [evsGI, List.append_assoc]
  exact hx ch1 ch2 .attr 0 (F key false m it :: s1) (F key false m it :: s2) _ _ (SR.same _ hS) hT2 hcont

theorem qib_slot (k0 v : Value) (rest : Items) (hk : QV k0) (hv : AlV v) (hr : AlI rest) :
    QIb (.slot k0 v rest) := by
  intro ch1 ch2 key m it s1 s2 R1 R2 hS hi hK
  have hfin := qib_end (.slot k0 v rest) hi key m it s1 s2 R1 R2 hS hK
  simp only [pushItems] at hfin
  have hT2 : TopRel .noKey 0 (F .attr true 0 {} :: F key false m it :: s1) .attr 0 (F key false m it :: s2) :=
    fun c => SR.left c (SR.same _ hS)
  have htail := slot_tail v rest hv hr ch1 ch2 _ _ _ _ _ _ {} (vtype k0) _ _ hT2 hfin
  simp only [evsGI, List.append_assoc, List.cons_append]
  exact hk ch1 ch2 .attr 0 (F key false m it :: s1) (F key false m it :: s2) _ _ (SR.same _ hS) hT2 htail

/-! ### the induction -/

mutual
theorem tV : (x : Value) → TV x
  | .extant => tv_prim _ (by intro a i h; cases h)
  | .int _ _ => tv_prim _ (by intro a i h; cases h)
  | .float _ => tv_prim _ (by intro a i h; cases h)
  | .bool _ => tv_prim _ (by intro a i h; cases h)
  | .text _ => tv_prim _ (by intro a i h; cases h)
  | .data _ => tv_prim _ (by intro a i h; cases h)
  | .record .nil i => by
    have hI := tI i
    exact ⟨alv_recnil i hI.1, qv_recnil i hI.2.1, fun i' h => by cases h; exact ⟨hI.1, hI.2.2⟩⟩
  | .record (.cons n v r) i => by
    have hRT := alrt n v r i (alb n v (tV v)) (tA r) (tI i).1
    exact ⟨alv_reccons n v r i hRT, qv_reccons n v r i hRT, fun i' h => by cases h⟩
theorem tA : (a : Attrs) → AlA a
  | .nil => ala_nil
  | .cons n v r => ala_cons n v r (alb n v (tV v)) (tA r)
theorem tI : (i : Items) → TI i
  | .nil => ⟨ali_nil, qis_nil, qib_nil⟩
  | .val x rest => by
    have hx := tV x
    have hr := tI rest
    exact ⟨ali_val x rest hx.1 hr.1, qis_val x rest hx.2.1 hr.1, qib_val x rest hx.2.1 hr.1⟩
  | .slot k v rest => by
    have hk := tV k
    have hv := tV v
    have hr := tI rest
    exact ⟨ali_slot k v rest hk.1 hv.1 hr.1, qis_slot k v rest hk.2.1 hv.1 hr.1, qib_slot k v rest hk.2.1 hv.1 hr.1⟩
end

/-! ### the top level -/

theorem feed_prim_init (e : Event) (he : e.isPrim = true) : (({} : VV).feed e).1 = {} := by
  cases e <;> simp [Event.isPrim] at he <;> rfl

theorem ok_end_top (a : Nat) (c : ItemCollection) :
    Ok (S [F .noKey true a c] none) (S [F .noKey true a c] none) [.endRecord] [.endRecord] := by
  apply Ok_match rfl
  · rw [feed_endRecord_top]; exact VV.init_beq
  · rw [feed_endRecord_top]; exact Ok_nil VV.init_beq

/-- One value in any two layouts: the loop answers `Some(true)`. -/
theorem mixed_same (ch1 ch2 : List Char → Bool) (x : Value) : Ok {} {} (evsG ch1 x) (evsG ch2 x) := by
  by_cases hx : ∀ a i, x ≠ .record a i
  · obtain ⟨e, he, hev, _⟩ := evsG_nonrec x hx
    rw [hev, hev]
    apply Ok_match (Event.beq_refl e)
    · rw [feed_prim_init e he]; exact VV.init_beq
    · rw [feed_prim_init e he]; exact Ok_nil VV.init_beq
  · cases x with
    | record a i =>
      cases a with
      | nil =>
        have h0 : (({} : VV).feed .startBody).1 = S [F .noKey true 0 {}] none := rfl
        have hitems := ((tI i).1 ch1 ch2 .noKey 0 [] .noKey 0 [] {} [.endRecord] [.endRecord]
          (fun c => SR.refl _) (ok_end_top _ _)).1
        simp only [evsG, evsGA, List.nil_append]
        apply Ok_match rfl
        · rw [h0]; exact beq_of_SR none (SR.refl _)
        · rw [h0]; exact hitems
      | cons n v r =>
        have h0 : (({} : VV).feed (.startAttr n)).1 = S [F .attr true 0 {}, F .noKey false 0 {}] none := rfl
        have hitems := ((tI i).1 ch1 ch2 .noKey (0 + (vtype v).len + alen r) [] .noKey (0 + (vtype v).len + alen r) []
          {} [.endRecord] [.endRecord] (fun c => SR.refl _) (ok_end_top _ _)).1
        have hsb : Ok (S [F .noKey false (0 + (vtype v).len + alen r) {}] none)
            (S [F .noKey false (0 + (vtype v).len + alen r) {}] none)
            (.startBody :: (evsGI ch1 i ++ [.endRecord])) (.startBody :: (evsGI ch2 i ++ [.endRecord])) := by
          apply Ok_match rfl
          · simp only [feed_startBody_header]; exact beq_of_SR none (SR.refl _)
          · simp only [feed_startBody_header]; exact hitems
        have hattrs := tA r ch1 ch2 .noKey (0 + (vtype v).len) {} [] [] _ _ (SR.refl _) hsb
        have hb := alb n v (tV v) ch1 ch2 .noKey 0 {} [] [] _ _ (SR.refl _) hattrs
        simp only [evsG, evsGA_cons, List.cons_append, List.append_assoc, List.nil_append]
        apply Ok_match (Event.beq_refl _)
        · rw [h0]; exact beq_of_SR none (SR.refl _)
        · rw [h0]; exact hb
    | _ => exact absurd (fun a i h => by cases h) hx

/-- **Equal values in ANY two layouts compare `Some(true)`**: `ch1` / `ch2` choose, independently on the two sides,
which attribute bodies are written without braces. -/
theorem mixed_layouts (ch1 ch2 : List Char → Bool) (v w : Value) (h : veq v w = true) :
    incrementalCompare (stream (evsG ch1 v, .fin)) (stream (evsG ch2 w, .fin)) = some true := by
  have hs : ∀ l : List Event, stream (l, Term.fin) = l.map SItem.ev := by
    intro l; simp [stream]
  have hag := gV_agree (ch := ch2) v w h
  rw [hs, hs]
  unfold incrementalCompare
  simp only [List.length_map]
  rw [← evsAgree_length _ _ hag,
    ← cmpLoop_congr _ _ _ (evsG ch1 v) (evsG ch1 v) (evsG ch2 v) (evsG ch2 w) (evsAgree_refl _) hag]
  exact mixed_same ch1 ch2 v _ (by omega)

end SwimVerif.ReconEq
