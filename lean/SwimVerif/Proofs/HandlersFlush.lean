/-
Lemmas about the write flush of the agent task (Model/HandlersFlush.lean): value, map and command lanes never ask
for their lifecycle event to be re-run after a write, so — whatever the runtime reads and whenever — write completions
run no handler.
-/
import SwimVerif.Model.HandlersFlush
import SwimVerif.Proofs.HandlersInv

set_option linter.unusedVariables false
namespace SwimVerif.Handlers

/-! ### `write_to_buffer` of the plain kinds -/

theorem write_plain (w : Wr) (h : w.plain = true) : w.write.1.plain = true ∧ w.write.2 ≠ .requiresEvent := by
  cases w with
  | value d s =>
    cases s with
    | zero => cases d <;> simp [Wr.write, Wr.plain]
    | succ s => simp only [Wr.write, Wr.plain, true_and]; split <;> simp
  | map q =>
    cases q with
    | zero => simp [Wr.write, Wr.plain]
    | succ q => simp only [Wr.write, Wr.plain, true_and]; split <;> simp
  | command d p => cases d <;> cases p <;> simp [Wr.write, Wr.plain]
  | demandMap p m => simp [Wr.plain] at h

/-- Only the `RequiresEvent` arm passes `requires_event = true` to `do_write`. -/
theorem flushArm_event (r : Option WriteResult) : (flushArm r).event = true ↔ r = some .requiresEvent := by
  cases r with
  | none => simp [flushArm, Generated.flushNoDataEvent]
  | some x =>
    cases x <;>
      simp [flushArm, Generated.flushNoDataEvent, Generated.flushDoneEvent, Generated.flushDataStillAvailableEvent,
        Generated.flushRequiresEventEvent]

/-! ### the invariant: no plain item has a write in flight that will re-dispatch its event -/

def Item.quiet (it : Item) : Prop := it.wr.plain = true ∧ it.away ≠ some true

def WSide.Quiet (io : WSide) : Prop := ∀ it ∈ io.items, it.quiet

theorem quiet_setItem (io : WSide) (id : Nat) (it : Item) (hq : io.Quiet) (hi : it.quiet) :
    (io.setItem id it).Quiet := by
  intro x hx
  rcases List.mem_or_eq_of_mem_set hx with h | h
  · exact hq x h
  · exact h ▸ hi

theorem quiet_get (io : WSide) (id : Nat) (it : Item) (hq : io.Quiet) (h : io.items[id]? = some it) : it.quiet :=
  hq it (List.mem_of_getElem? h)

theorem quiet_flushOne (io : WSide) (id : Nat) (hq : io.Quiet) : (io.flushOne id).1.Quiet := by
  unfold WSide.flushOne
  cases hg : io.items[id]? with
  | none => exact hq
  | some it =>
    simp only
    cases ha : it.away with
    | some b => exact hq
    | none =>
      have hi := quiet_get io id it hq hg
      have hw := write_plain it.wr hi.1
      refine quiet_setItem io id _ hq ⟨hw.1, ?_⟩
      simp only
      intro hc
      split at hc
      · have : (flushArm (some it.wr.write.2)).event = true := by simpa using hc
        exact hw.2 (Option.some.inj ((flushArm_event _).1 this))
      · cases hc

theorem quiet_flush (io : WSide) (d : List Nat) (hq : io.Quiet) : (io.flush d).1.Quiet := by
  induction d generalizing io with
  | nil => exact hq
  | cons id rest ih => simp only [WSide.flush]; exact ih _ (quiet_flushOne io id hq)

/-- A write completion of a quiet write side runs no handler and leaves the agent state alone. -/
theorem complete_quiet (dispatch : Trig) (io : WSide) (id : Nat) (st : St) (hq : io.Quiet) :
    (io.complete dispatch id st).2 = (st, .ok) ∧ (io.complete dispatch id st).1.Quiet := by
  unfold WSide.complete
  cases hg : io.items[id]? with
  | none => exact ⟨rfl, hq⟩
  | some it =>
    simp only
    have hi := quiet_get io id it hq hg
    cases ha : it.away with
    | none => exact ⟨rfl, hq⟩
    | some ev =>
      cases ev with
      | true => exact absurd ha hi.2
      | false =>
        exact ⟨rfl, quiet_setItem io id _ hq ⟨hi.1, by simp⟩⟩

theorem stepEv_quiet (dispatch : Trig) (io : WSide) (st : St) (e : IOEv) (hq : io.Quiet) (he : e.plain = true) :
    (io.stepEv dispatch st e).2 = (st, .ok) ∧ (io.stepEv dispatch st e).1.Quiet := by
  cases e with
  | flush d => exact ⟨rfl, quiet_flush io d hq⟩
  | complete id => exact complete_quiet dispatch io id st hq
  | touch id wr =>
    simp only [WSide.stepEv]
    cases hg : io.items[id]? with
    | none => exact ⟨rfl, hq⟩
    | some it =>
      have hi := quiet_get io id it hq hg
      exact ⟨rfl, quiet_setItem io id _ hq ⟨by simpa [IOEv.plain] using he, hi.2⟩⟩

theorem run_quiet (dispatch : Trig) (io : WSide) (st : St) (evs : List IOEv) (hq : io.Quiet)
    (he : ∀ e ∈ evs, e.plain = true) :
    (io.run dispatch st evs).2 = (st, .ok) ∧ (io.run dispatch st evs).1.Quiet := by
  induction evs generalizing io with
  | nil => exact ⟨rfl, hq⟩
  | cons e rest ih =>
    have h1 := stepEv_quiet dispatch io st e hq (he e (List.mem_cons_self ..))
    simp only [WSide.run]
    rcases hs : io.stepEv dispatch st e with ⟨io', st', o⟩
    rw [hs] at h1
    simp only [Prod.mk.injEq] at h1
    obtain ⟨⟨h2, h3⟩, h4⟩ := h1
    subst h2; subst h3
    simp only
    exact ih io' h4 (fun e' he' => he e' (List.mem_cons_of_mem _ he'))

theorem init_quiet : WSide.init.Quiet := by
  intro it hit
  simp only [WSide.init, List.mem_append, List.mem_replicate, List.mem_singleton] at hit
  rcases hit with (⟨_, h⟩ | ⟨_, h⟩) | h <;> subst h <;> exact ⟨rfl, by simp⟩

/-! ### the executable model: `rd` and sync requests -/

theorem modified_plain (w : Wr) (h : w.plain = true) : w.modified.plain = true := by
  cases w <;> simp_all [Wr.modified, Wr.plain]

theorem synced_plain (w : Wr) (h : w.plain = true) : w.synced.plain = true := by
  cases w <;> simp_all [Wr.synced, Wr.plain]

theorem quiet_touch (io : WSide) (f : Wr → Wr) (id : Nat) (hf : ∀ w, w.plain = true → (f w).plain = true)
    (hq : io.Quiet) : (io.touch f id).Quiet := by
  unfold WSide.touch
  cases hg : io.items[id]? with
  | none => exact hq
  | some it =>
    have hi := quiet_get io id it hq hg
    exact quiet_setItem io id _ hq ⟨hf _ hi.1, hi.2⟩

theorem quiet_foldl_touch (f : Wr → Wr) (hf : ∀ w, w.plain = true → (f w).plain = true) (d : List Nat) (io : WSide)
    (hq : io.Quiet) : (d.foldl (fun io id => io.touch f id) io).Quiet := by
  induction d generalizing io with
  | nil => exact hq
  | cons id rest ih => exact ih _ (quiet_touch io f id hf hq)

/-- What a handler chain can see of the agent: lane contents and slots, the trace, the suspended futures, the phase. -/
def sameView (a b : Agent) : Prop :=
  a.st.vals = b.st.vals ∧ a.st.maps = b.st.maps ∧ a.st.trace = b.st.trace ∧ a.st.susp = b.st.susp ∧
    a.phase = b.phase ∧ a.prog = b.prog

theorem sameView_refl (a : Agent) : sameView a a := ⟨rfl, rfl, rfl, rfl, rfl, rfl⟩

theorem sameView_trans {a b c : Agent} (h1 : sameView a b) (h2 : sameView b c) : sameView a c :=
  ⟨h1.1.trans h2.1, h1.2.1.trans h2.2.1, h1.2.2.1.trans h2.2.2.1, h1.2.2.2.1.trans h2.2.2.2.1,
   h1.2.2.2.2.1.trans h2.2.2.2.2.1, h1.2.2.2.2.2.trans h2.2.2.2.2.2⟩

theorem endOfIteration_view (x : AgentIO) : sameView x.endOfIteration.agent x.agent :=
  ⟨rfl, rfl, rfl, rfl, rfl, rfl⟩

theorem endOfIteration_quiet (x : AgentIO) (hq : x.io.Quiet) : x.endOfIteration.io.Quiet := by
  simp only [AgentIO.endOfIteration]
  exact quiet_flush _ _ (quiet_foldl_touch _ modified_plain _ _ hq)

theorem drain_idle (n : Nat) (a : Agent) (h : a.st.susp = []) : drain n a = a := by
  cases n with
  | zero => rfl
  | succ n => simp only [drain, h]

theorem execResult_ok (a : Agent) (h : a.st.susp = []) : execResult a (a.st, .ok) = a := by
  simp only [execResult]
  exact drain_idle _ _ h

/-- `rd`: with nothing suspended and a quiet write side, the runtime reading the output of an item runs no handler. -/
theorem readOne_view (x : AgentIO) (id : Nat) (hq : x.io.Quiet) (hs : x.agent.st.susp = []) :
    sameView (x.readOne id).agent x.agent ∧ (x.readOne id).io.Quiet := by
  unfold AgentIO.readOne
  split
  · have hc := complete_quiet (trigD x.agent.prog maxDepth) x.io id x.agent.st hq
    rcases hr : x.io.complete (trigD x.agent.prog maxDepth) id x.agent.st with ⟨io', r⟩
    rw [hr] at hc
    simp only at hc
    obtain ⟨h1, h2⟩ := hc
    subst h1
    simp only
    rw [execResult_ok x.agent hs]
    exact ⟨endOfIteration_view _, endOfIteration_quiet _ h2⟩
  · exact ⟨sameView_refl _, hq⟩

theorem foldl_readOne_view (ids : List Nat) (x : AgentIO) (hq : x.io.Quiet) (hs : x.agent.st.susp = []) :
    sameView (ids.foldl AgentIO.readOne x).agent x.agent ∧ (ids.foldl AgentIO.readOne x).io.Quiet := by
  induction ids generalizing x with
  | nil => exact ⟨sameView_refl _, hq⟩
  | cons id rest ih =>
    have h1 := readOne_view x id hq hs
    have h2 := ih (x.readOne id) h1.2 (h1.1.2.2.2.1.trans hs)
    exact ⟨sameView_trans h2.1 h1.1, h2.2⟩

theorem readRounds_view (ids : List Nat) (k : Nat) (x : AgentIO) (hq : x.io.Quiet) (hs : x.agent.st.susp = []) :
    sameView (x.readRounds ids k).agent x.agent ∧ (x.readRounds ids k).io.Quiet := by
  induction k generalizing x with
  | zero => exact ⟨sameView_refl _, hq⟩
  | succ k ih =>
    have h1 := foldl_readOne_view ids x hq hs
    have h2 := ih (ids.foldl AgentIO.readOne x) h1.2 (h1.1.2.2.2.1.trans hs)
    exact ⟨sameView_trans h2.1 h1.1, h2.2⟩

/-! ### name tables -/

theorem assoc_map_of_mem {σ κ ν : Type} [DecidableEq κ] (key : σ → κ) (val : σ → ν) (l : List σ)
    (hn : (l.map key).Nodup) (s : σ) (hs : s ∈ l) :
    assoc (l.map fun x => (key x, val x)) (key s) = some (val s) := by
  induction l with
  | nil => cases hs
  | cons t rest ih =>
    simp only [List.map_cons, List.nodup_cons] at hn
    simp only [List.map_cons, assoc]
    rcases List.mem_cons.1 hs with h | h
    · subst h; simp
    · have hne : key t ≠ key s := by
        intro he
        exact hn.1 (he ▸ List.mem_map_of_mem h)
      simp only [hne, if_false]
      exact ih hn.2 h

end SwimVerif.Handlers
