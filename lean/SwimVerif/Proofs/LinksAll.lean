import SwimVerif.Proofs.LinksTotal

set_option linter.unusedSimpArgs false
set_option linter.unusedVariables false
namespace SwimVerif.WT

/-! ### `remove_all_links` -/

def ZeroAt (l : Links) (id : Nat) : Prop := ∃ c, alGet l.lane id = some c ∧ c.links = 0

theorem zeroAt_setLaneLinks {l : Links} {id : Nat} (h : ZeroAt l id) (id' : Nat) : ZeroAt (l.setLaneLinks id' 0) id := by
  unfold ZeroAt at *
  rw [setLaneLinks_lane]
  by_cases hh : id' = id
  · subst hh; simp
  · simp only [hh, if_false]; exact h

theorem zeroAt_setLaneLinks_self (l : Links) (id : Nat) : ZeroAt (l.setLaneLinks id 0) id := by
  unfold ZeroAt; rw [setLaneLinks_lane]; simp

theorem zeroFold_fields (ps : List (Nat × LaneLinks)) : ∀ acc : Links,
    (zeroFold ps acc).forward = acc.forward ∧ (zeroFold ps acc).total = acc.total ∧
    (zeroFold ps acc).hasAgg = acc.hasAgg ∧ (zeroFold ps acc).agg = acc.agg := by
  induction ps with
  | nil => intro acc; exact ⟨rfl, rfl, rfl, rfl⟩
  | cons p rest ih =>
    intro acc
    simp only [zeroFold, List.foldl] at *
    have := ih (if p.2.hasReporter then acc.setLaneLinks p.1 0 else acc)
    refine ⟨this.1.trans ?_, this.2.1.trans ?_, this.2.2.1.trans ?_, this.2.2.2.trans ?_⟩ <;> (split <;> rfl)

theorem zeroFold_zero (ps : List (Nat × LaneLinks)) : ∀ acc : Links,
    (∀ id, ZeroAt acc id → ZeroAt (zeroFold ps acc) id) ∧
    (∀ p, p ∈ ps → p.2.hasReporter = true → ZeroAt (zeroFold ps acc) p.1) := by
  induction ps with
  | nil => intro acc; exact ⟨fun _ h => h, fun p hp => by simp at hp⟩
  | cons q rest ih =>
    intro acc
    simp only [zeroFold, List.foldl]
    have ih' := ih (if q.2.hasReporter then acc.setLaneLinks q.1 0 else acc)
    simp only [zeroFold] at ih'
    constructor
    · intro id hz
      apply ih'.1
      split
      · exact zeroAt_setLaneLinks hz _
      · exact hz
    · intro p hp hr
      rcases List.mem_cons.mp hp with rfl | hm
      · apply ih'.1
        rw [if_pos hr]
        exact zeroAt_setLaneLinks_self _ _
      · exact ih'.2 p hm hr

theorem alGet_map_clear (f : List (Nat × LaneLinks)) (id : Nat) (e2 : LaneLinks)
    (h : alGet (f.map clearEntry) id = some e2) :
    ∃ e, (id, e) ∈ f ∧ e2 = { e with remotes := [] } := by
  induction f with
  | nil => simp [alGet] at h
  | cons p rest ih =>
    obtain ⟨k, e⟩ := p
    simp only [List.map_cons, clearEntry, alGet] at h
    by_cases hk : k = id
    · subst hk
      simp only [if_true] at h
      exact ⟨e, List.mem_cons_self, (Option.some.inj h).symm⟩
    · simp only [hk, if_false] at h
      obtain ⟨e', hm, he⟩ := ih h
      exact ⟨e', List.mem_cons_of_mem _ hm, he⟩

theorem sumLinks_map_clear (f : List (Nat × LaneLinks)) : sumLinks (f.map clearEntry) = 0 := by
  induction f with
  | nil => rfl
  | cons p rest ih =>
    simp only [sumLinks, List.map_cons, List.map_map, List.sum_cons, clearEntry] at ih ⊢
    simp [ih]

theorem keys_map_clear (f : List (Nat × LaneLinks)) : keysOf (f.map clearEntry) = keysOf f := by
  simp [keysOf, clearEntry, Function.comp_def]

theorem pairs_length (f : List (Nat × LaneLinks)) :
    (f.flatMap (fun (p : Nat × LaneLinks) => p.2.remotes.map (fun r => (p.1, r)))).length = sumLinks f := by
  induction f with
  | nil => rfl
  | cons p rest ih =>
    simp only [List.flatMap_cons, List.length_append, List.length_map, sumLinks, List.map_cons, List.sum_cons] at ih ⊢
    rw [ih]

theorem inv_removeAll {l : Links} (hr : RInv l) (ht : TInv l) : RInv l.removeAllLinks.1 ∧ TInv l.removeAllLinks.1 := by
  unfold Links.removeAllLinks
  simp only []
  have bf : l.removeAllBase.forward = l.forward.map clearEntry := by unfold Links.removeAllBase; split <;> rfl
  have bt : l.removeAllBase.total = 0 := by
    have h1 := pairs_length l.forward
    have h2 := ht.total
    unfold Links.removeAllBase
    split <;> (show l.total - l.pairs.length = 0; unfold Links.pairs; omega)
  have bh : l.removeAllBase.hasAgg = l.hasAgg := by unfold Links.removeAllBase; split <;> rfl
  have ba : l.removeAllBase.hasAgg = true → l.removeAllBase.agg.links = 0 := by
    intro hh
    rw [bh] at hh
    unfold Links.removeAllBase
    rw [if_pos hh]
  have ff := zeroFold_fields l.forward l.removeAllBase
  have zz := zeroFold_zero l.forward l.removeAllBase
  constructor
  · constructor
    · intro id e2 he hrep
      rw [ff.1, bf] at he
      obtain ⟨e, hm, rfl⟩ := alGet_map_clear _ _ _ he
      obtain ⟨c, hc, hl⟩ := zz.2 (id, e) hm hrep
      exact ⟨c, hc, by simpa using hl⟩
    · intro hh
      rw [ff.2.2.1] at hh
      rw [ff.2.2.2, ff.2.1, bt]
      exact ba hh
  · constructor
    · rw [ff.2.1, ff.1, bf, bt, sumLinks_map_clear]
    · rw [ff.1, bf, keys_map_clear]; exact ht.keys
    · intro id e2 he
      rw [ff.1, bf] at he
      obtain ⟨e, hm, rfl⟩ := alGet_map_clear _ _ _ he
      simp

/-! ### reporters registered for a lane that has no links yet; counters; snapshots -/

theorem lenAt_getD (f : List (Nat × LaneLinks)) (id : Nat) : ((alGet f id).getD {}).remotes.length = lenAt f id := by
  unfold lenAt; cases alGet f id <;> rfl

theorem inv_register {l : Links} (hr : RInv l) (ht : TInv l) (id : Nat) (hfresh : l.linkedFrom id = []) :
    RInv (l.registerReporter id) ∧ TInv (l.registerReporter id) := by
  have hrem : ((alGet l.forward id).getD {}).remotes = [] := by
    unfold Links.linkedFrom at hfresh
    cases hg : alGet l.forward id with
    | none => rfl
    | some e => simpa [hg] using hfresh
  unfold Links.registerReporter
  simp only []
  constructor
  · constructor
    · intro id2 e2 he hrep
      simp only [alGet_alSet] at he ⊢
      by_cases hid : id = id2
      · subst hid
        simp only [if_true] at he ⊢
        have : e2 = _ := (Option.some.inj he).symm
        subst this
        simp only [hrem, List.length_nil]
        exact ⟨{}, rfl, rfl⟩
      · simp only [hid, if_false] at he ⊢
        exact hr.lane id2 e2 he hrep
    · exact hr.agg
  · constructor
    · have := sumLinks_alSet l.forward id { (alGet l.forward id).getD {} with hasReporter := true }
      have h2 := lenAt_getD l.forward id
      have h3 := ht.total
      show l.total = sumLinks (alSet l.forward id _)
      simp only [] at this
      omega
    · exact nodup_alSet ht.keys id _
    · intro id2 e2 he
      simp only [alGet_alSet] at he
      split at he
      · have : e2 = _ := (Option.some.inj he).symm
        subst this
        simp [hrem]
      · exact ht.nodup id2 e2 he

theorem addLaneEvents_links (l : Links) (id n id2 : Nat) (c : Counters)
    (h : alGet l.lane id2 = some c) :
    ∃ c', alGet (l.addLaneEvents id n).lane id2 = some c' ∧ c'.links = c.links := by
  unfold Links.addLaneEvents
  simp only [alGet_alSet]
  by_cases hid : id = id2
  · subst hid; simp [h]
  · simp [hid, h]

theorem inv_addEvents {l : Links} (hr : RInv l) (ht : TInv l) (lid : Nat) (hasRep : Bool) (n : Nat) :
    RInv (l.addEvents lid hasRep n) ∧ TInv (l.addEvents lid hasRep n) := by
  cases hasRep with
  | false =>
    simp only [Links.addEvents]
    exact ⟨⟨hr.lane, hr.agg⟩, tinv_congr ht rfl rfl⟩
  | true =>
    simp only [Links.addEvents, if_true]
    constructor
    · constructor
      · intro id2 e2 he2 hrep
        obtain ⟨c, hc, hl⟩ := hr.lane id2 e2 he2 hrep
        obtain ⟨c', hc', hl'⟩ := addLaneEvents_links l lid n id2 c hc
        exact ⟨c', hc', hl'.trans hl⟩
      · intro hh; exact hr.agg hh
    · exact tinv_congr ht rfl rfl

theorem inv_countSingle {l : Links} (hr : RInv l) (ht : TInv l) (lid : Nat) :
    RInv (l.countSingle lid) ∧ TInv (l.countSingle lid) := by
  unfold Links.countSingle
  split
  · exact inv_addEvents hr ht _ _ _
  · exact ⟨hr, ht⟩

theorem inv_countBroadcast {l : Links} (hr : RInv l) (ht : TInv l) (lid : Nat) :
    RInv (l.countBroadcast lid) ∧ TInv (l.countBroadcast lid) := by
  unfold Links.countBroadcast
  split
  · exact inv_addEvents hr ht _ _ _
  · exact ⟨hr, ht⟩

theorem alGet_map_events (lane : List (Nat × Counters)) (id : Nat) (c : Counters) (h : alGet lane id = some c) :
    alGet (lane.map (fun (p : Nat × Counters) => (p.1, { p.2 with events := 0 }))) id = some { c with events := 0 } := by
  induction lane with
  | nil => simp [alGet] at h
  | cons p rest ih =>
    obtain ⟨k, v⟩ := p
    simp only [List.map_cons, alGet] at h ⊢
    by_cases hk : k = id
    · simp only [hk, if_true] at h ⊢; rw [Option.some.inj h]
    · simp only [hk, if_false] at h ⊢; exact ih h

theorem inv_snapshot {l : Links} (hr : RInv l) (ht : TInv l) : RInv l.snapshot ∧ TInv l.snapshot := by
  unfold Links.snapshot
  constructor
  · constructor
    · intro id e he hrep
      obtain ⟨c, hc, hl⟩ := hr.lane id e he hrep
      exact ⟨_, alGet_map_events l.lane id c hc, hl⟩
    · intro hh; exact hr.agg hh
  · exact tinv_congr ht rfl rfl

/-- Reported = actual (lane by lane, in aggregate) and total = actual number of links. -/
structure LInv (l : Links) : Prop where
  r : RInv l
  t : TInv l

/-- A reporter is registered for a lane when the lane is registered, i.e. before anything links to it. -/
def admissible (l : Links) : LOp → Prop
  | .register id => l.linkedFrom id = []
  | _ => True

theorem linv_step {l : Links} (h : LInv l) (op : LOp) (ha : admissible l op) : LInv (lstep l op) := by
  cases op with
  | register id => exact ⟨(inv_register h.r h.t id ha).1, (inv_register h.r h.t id ha).2⟩
  | insert id r => exact ⟨rinv_insert h.r id r, tinv_insert h.t id r⟩
  | remove id r => exact ⟨rinv_remove h.r id r, tinv_remove h.t id r⟩
  | removeRemote r => exact ⟨rinv_removeRemote h.r r, tinv_removeRemote h.t r⟩
  | removeLane id => exact ⟨rinv_removeLane h.r id, tinv_removeLane h.t id⟩
  | removeAll => exact ⟨(inv_removeAll h.r h.t).1, (inv_removeAll h.r h.t).2⟩
  | countSingle id => exact ⟨(inv_countSingle h.r h.t id).1, (inv_countSingle h.r h.t id).2⟩
  | countBroadcast id => exact ⟨(inv_countBroadcast h.r h.t id).1, (inv_countBroadcast h.r h.t id).2⟩
  | snapshot => exact ⟨(inv_snapshot h.r h.t).1, (inv_snapshot h.r h.t).2⟩

/-- All operations of a sequence are admissible in the state they are applied to. -/
def Admissible : Links → List LOp → Prop
  | _, [] => True
  | l, op :: rest => admissible l op ∧ Admissible (lstep l op) rest

theorem linv_run : ∀ (ops : List LOp) (l : Links), LInv l → Admissible l ops → LInv (lrun l ops) := by
  intro ops
  induction ops with
  | nil => intro l h _; exact h
  | cons op rest ih =>
    intro l h ha
    exact ih _ (linv_step h op ha.1) ha.2

theorem linv_init (a : Bool) : LInv { hasAgg := a } := ⟨rinv_init a, tinv_init a⟩

end SwimVerif.WT
