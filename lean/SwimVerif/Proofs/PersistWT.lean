/-
Lemmas for C05, write-task side: a predicate `P lane body` that holds of every body handed to `handle_event`
holds of every body that waits in any remote's buffers, is lent to a write in flight (or orphaned), and hence of
every frame the write task ever delivers — for the WHOLE write-task model (`WT.step`: links, remote tracker,
write failures, lane failures, pruning, stop), not just one remote's queue.
-/
import SwimVerif.Model.Persist
import SwimVerif.Proofs.NoFab

namespace SwimVerif.Persist
open SwimVerif.WT

/-- Every body waiting for, or lent to a write for, this remote satisfies `P`. -/
def RemOK (P : Nat → Body → Prop) (rem : Remote) : Prop :=
  ∀ l b, (b ∈ bufBodies rem.up l ∨ b ∈ writeBodies l rem.inflight) → P l b

structure PendingOK (P : Nat → Body → Prop) (s : WT.St) : Prop where
  rem : ∀ r rem, alGet s.remotes r = some rem → RemOK P rem
  orph : ∀ p, p ∈ s.orphans → ∀ l b, b ∈ writeBodies l (some p.2) → P l b

theorem remOK_default (P : Nat → Body → Prop) : RemOK P {} := by
  intro l b h
  rcases h with h | h <;> simp [bufBodies, bufValue, bufSupply, bufMap, alGet, writeBodies] at h

theorem pendingOK_init (P : Nat → Body → Prop) : PendingOK P {} :=
  ⟨by intro r rem h; simp [alGet] at h, by intro p h; simp at h⟩

theorem pendingOK_mono {P Q : Nat → Body → Prop} {s : WT.St} (hpq : ∀ l b, P l b → Q l b) (h : PendingOK P s) :
    PendingOK Q s :=
  ⟨fun r rem hr l b hb => hpq l b (h.rem r rem hr l b hb), fun p hp l b hb => hpq l b (h.orph p hp l b hb)⟩

theorem pendingOK_links {P : Nat → Body → Prop} {s : WT.St} (l : Links) (h : PendingOK P s) :
    PendingOK P { s with links := l } := ⟨h.rem, h.orph⟩

theorem pendingOK_setRemote {P : Nat → Body → Prop} {s : WT.St} (h : PendingOK P s) (r : Nat) (rem' : Remote)
    (hr : RemOK P rem') : PendingOK P { s with remotes := alSet s.remotes r rem' } := by
  refine ⟨?_, h.orph⟩
  intro r' rem hget
  simp only [] at hget
  rw [alGet_alSet] at hget
  split at hget
  · cases hget; exact hr
  · exact h.rem r' rem hget

theorem pendingOK_pushSpecial {P : Nat → Body → Prop} {s : WT.St} (h : PendingOK P s) (r : Nat) (a : Special) :
    PendingOK P (s.pushSpecial r a).1 := by
  unfold St.pushSpecial
  cases hrem : s.remote? r with
  | none => exact h
  | some rem =>
    simp only [St.sched]
    apply pendingOK_setRemote h
    have hold := h.rem r rem hrem
    intro l b hb
    simp only [] at hb
    rcases hb with hb | hb
    · exact hold l b (Or.inl (buf_pushSpecial _ a s.reg l b hb))
    · have hw := write_pushSpecial rem.up a s.reg l
      cases hres : (rem.up.pushSpecial a s.reg).2 with
      | none => rw [hres] at hb; exact hold l b (Or.inr hb)
      | some w => rw [hres] at hb hw; simp only [] at hb; rw [hw] at hb; simp at hb

theorem pendingOK_pushWrite {P : Nat → Body → Prop} {s : WT.St} (h : PendingOK P s) (r lane : Nat) (ev : Resp)
    (hnew : ∀ b, respBody? ev = some b → P lane b) : PendingOK P (s.pushWrite r lane ev).1 := by
  unfold St.pushWrite
  cases hrem : s.remote? r with
  | none => exact h
  | some rem =>
    simp only [St.sched]
    apply pendingOK_setRemote h
    have hold := h.rem r rem hrem
    intro l b hb
    simp only [] at hb
    rcases hb with hb | hb
    · rcases buf_push _ lane ev s.reg l b hb with h1 | ⟨h1, h2⟩
      · exact hold l b (Or.inl h1)
      · subst h1; exact hnew b h2
    · cases hres : (rem.up.push lane ev s.reg).2 with
      | none => rw [hres] at hb; exact hold l b (Or.inr hb)
      | some w =>
        rw [hres] at hb; simp only [] at hb
        have := write_push rem.up lane ev s.reg l b (by rw [hres]; exact hb)
        obtain ⟨h1, h2⟩ := this
        subst h1; exact hnew b h2

theorem pendingOK_removeRemote {P : Nat → Body → Prop} {s : WT.St} (h : PendingOK P s) (r : Nat) (why : Reason) :
    PendingOK P (s.removeRemote r why).1 := by
  unfold St.removeRemote
  simp only []
  cases hrem : St.remote? { s with links := s.links.removeRemote r } r with
  | none => exact pendingOK_links _ h
  | some rem =>
    simp only []
    have hrem' : alGet s.remotes r = some rem := hrem
    constructor
    · intro r' rem' hget
      simp only [] at hget
      rw [alGet_alErase] at hget
      split at hget
      · cases hget
      · exact h.rem r' rem' hget
    · intro p hp l b hb
      simp only [] at hp
      cases hin : rem.inflight with
      | none => rw [hin] at hp; exact h.orph p hp l b hb
      | some w =>
        rw [hin] at hp
        simp only [List.mem_append, List.mem_singleton] at hp
        rcases hp with hp | hp
        · exact h.orph p hp l b hb
        · subst hp
          exact h.rem r rem hrem' l b (Or.inr (by rw [hin]; exact hb))

theorem pendingOK_foldSpecial {P : Nat → Body → Prop} {α : Type} (f : α → Nat × Special) (xs : List α) :
    ∀ (acc : WT.St × List Nat), PendingOK P acc.1 →
      PendingOK P (xs.foldl (fun (acc : WT.St × List Nat) x =>
        ((acc.1.pushSpecial (f x).1 (f x).2).1, acc.2 ++ (acc.1.pushSpecial (f x).1 (f x).2).2)) acc).1 := by
  induction xs with
  | nil => intro acc h; exact h
  | cons x rest ih =>
    intro acc h
    simp only [List.foldl]
    exact ih _ (pendingOK_pushSpecial h _ _)

theorem pendingOK_foldWrite {P : Nat → Body → Prop} (lane : Nat) (ev : Resp)
    (hnew : ∀ b, respBody? ev = some b → P lane b) (xs : List Nat) :
    ∀ (acc : WT.St × List Nat), PendingOK P acc.1 →
      PendingOK P (xs.foldl (fun (acc : WT.St × List Nat) r =>
        ((acc.1.pushWrite r lane ev).1, acc.2 ++ (acc.1.pushWrite r lane ev).2)) acc).1 := by
  induction xs with
  | nil => intro acc h; exact h
  | cons x rest ih =>
    intro acc h
    simp only [List.foldl]
    exact ih _ (pendingOK_pushWrite h _ _ _ hnew)

/-- The bodies a lane event hands to `handle_event`. -/
def NewOK (P : Nat → Body → Prop) : WT.Ev → Prop
  | .event lane _ resp => ∀ b, respBody? resp = some b → P lane b
  | _ => True

theorem pendingOK_step {P : Nat → Body → Prop} {s : WT.St} (h : PendingOK P s) (e : WT.Ev) (hnew : NewOK P e) :
    PendingOK P (WT.step s e).1 := by
  cases e with
  | lane name rep =>
    simp only [WT.step]
    split
    · exact ⟨h.rem, h.orph⟩
    · exact ⟨h.rem, h.orph⟩
  | attach r =>
    simp only [WT.step]
    cases hrem : s.remote? r with
    | none => exact pendingOK_setRemote h r {} (remOK_default P)
    | some old =>
      simp only []
      have hset := pendingOK_setRemote h r {} (remOK_default P)
      refine ⟨hset.rem, ?_⟩
      intro p hp l b hb
      simp only [] at hp
      cases hin : old.inflight with
      | none => rw [hin] at hp; exact h.orph p hp l b hb
      | some w =>
        rw [hin] at hp
        simp only [List.mem_append, List.mem_singleton] at hp
        rcases hp with hp | hp
        · exact h.orph p hp l b hb
        · subst hp
          exact h.rem r old hrem l b (Or.inr (by rw [hin]; exact hb))
  | link r name =>
    simp only [WT.step]
    split
    · exact pendingOK_pushSpecial (pendingOK_links _ h) _ _
    · exact h
  | unlink r name =>
    simp only [WT.step]
    split
    · split
      · exact pendingOK_pushSpecial (pendingOK_links _ h) _ _
      · exact h
    · exact h
  | unknown r name =>
    simp only [WT.step]
    exact pendingOK_pushSpecial h _ _
  | event lane target resp =>
    have hn : ∀ b, respBody? resp = some b → P lane b := hnew
    simp only [WT.step]
    cases target with
    | some r =>
      simp only []
      split
      · exact h
      · split
        · exact pendingOK_pushWrite (pendingOK_links _ h) _ _ _ hn
        · exact pendingOK_pushWrite (pendingOK_pushSpecial (pendingOK_links _ (pendingOK_links _ h)) _ _) _ _ _ hn
    | none =>
      simp only []
      split
      · exact h
      · exact pendingOK_foldWrite lane resp hn _ _ (pendingOK_links _ h)
  | done r ok =>
    simp only [WT.step]
    have horph : PendingOK P (stepOrphan s r ok).1 := by
      unfold stepOrphan
      split
      · exact h
      · simp only []
        refine ⟨h.rem, ?_⟩
        intro p hp l b hb
        exact h.orph p (List.mem_of_mem_eraseP hp) l b hb
    cases hrem : s.remote? r with
    | none => exact horph
    | some rem =>
      simp only []
      cases hin : rem.inflight with
      | none => exact horph
      | some w =>
        simp only []
        have hold := h.rem r rem hrem
        by_cases hok : ok = true
        · simp only [hok, ↓reduceIte]
          apply pendingOK_setRemote h
          intro l b hb
          simp only [] at hb
          rcases hb with hb | hb
          · exact hold l b (Or.inl (replaceAndPop_bodies rem.up s.reg l b (Or.inl hb)))
          · exact hold l b (Or.inl (replaceAndPop_bodies rem.up s.reg l b (Or.inr hb)))
        · simp only [hok]
          apply pendingOK_removeRemote
          apply pendingOK_setRemote h
          intro l b hb
          simp only [] at hb
          rcases hb with hb | hb
          · exact hold l b (Or.inl hb)
          · simp [writeBodies] at hb
  | laneFailed lane =>
    simp only [WT.step]
    exact pendingOK_foldSpecial (fun (p : Nat × Bool) => (p.1, Special.unlinked lane .none)) _ _ (pendingOK_links _ h)
  | prune r =>
    simp only [WT.step]
    split
    · exact h
    · exact pendingOK_removeRemote h _ _
  | stop =>
    simp only [WT.step]
    exact pendingOK_foldSpecial (fun (p : Nat × Nat) => (p.2, Special.unlinked p.1 .none)) _ _ (pendingOK_links _ h)
  | snapshot =>
    simp only [WT.step]
    exact pendingOK_links _ h

/-! ### what a step delivers -/

theorem mem_writeBodies {l : Nat} {b : Body} {w : Write} :
    b ∈ writeBodies l (some w) ↔ w.lid = some l ∧ Note.event b ∈ w.notes := by
  simp only [writeBodies, bodiesFor, tagNotes, List.mem_filterMap, List.mem_map]
  constructor
  · rintro ⟨p, ⟨n, hn, rfl⟩, hp⟩
    simp only [] at hp
    cases hl : w.lid with
    | none => simp [hl] at hp
    | some l' =>
      cases n with
      | event b' =>
        simp only [hl] at hp
        split at hp
        · rename_i heq; cases hp; subst heq; exact ⟨rfl, hn⟩
        · cases hp
      | linked => simp [hl] at hp
      | synced => simp [hl] at hp
      | unlinked m => simp [hl] at hp
  · rintro ⟨h1, h2⟩
    exact ⟨(w.lid, Note.event b), ⟨Note.event b, h2, rfl⟩, by simp [h1]⟩

theorem inflightOf_ok {P : Nat → Body → Prop} {s : WT.St} (h : PendingOK P s) (r : Nat) (w : Write)
    (hw : inflightOf s r = some w) : ∀ l b, b ∈ writeBodies l (some w) → P l b := by
  intro l b hb
  have horph : (s.orphans.find? (fun p => p.1 = r)).map (fun p => p.2) = some w → P l b := by
    intro hf
    cases hfind : s.orphans.find? (fun p => decide (p.1 = r)) with
    | none => rw [hfind] at hf; cases hf
    | some p =>
      rw [hfind] at hf
      simp only [Option.map_some, Option.some.injEq] at hf
      subst hf
      exact h.orph p (List.mem_of_find?_eq_some hfind) l b hb
  unfold inflightOf at hw
  cases hrem : s.remote? r with
  | none => rw [hrem] at hw; exact horph hw
  | some rem =>
    rw [hrem] at hw
    simp only [] at hw
    cases hin : rem.inflight with
    | none => rw [hin] at hw; exact horph hw
    | some w' =>
      rw [hin] at hw
      cases hw
      exact h.rem r rem hrem l b (Or.inr (by rw [hin]; exact hb))

/-- Every event frame delivered by a step carries a body that satisfies `P`. -/
theorem sentBy_ok {P : Nat → Body → Prop} {s : WT.St} (h : PendingOK P s) (e : WT.Ev) (r l : Nat) (b : Body)
    (hm : Entry.send r (some l) (.event b) ∈ sentBy s e) : P l b := by
  cases e with
  | done r' ok =>
    cases ok with
    | false => simp [sentBy] at hm
    | true =>
      simp only [sentBy] at hm
      cases hw : inflightOf s r' with
      | none => rw [hw] at hm; simp at hm
      | some w =>
        rw [hw] at hm
        simp only [List.mem_map] at hm
        obtain ⟨n, hn, heq⟩ := hm
        injection heq with h1 h2 h3
        subst h3
        exact inflightOf_ok h r' w hw l b (mem_writeBodies.mpr ⟨h2, hn⟩)
  | _ => simp [sentBy] at hm

/-- The frames the write-task model reports for a completed write are the notes of the write `sentBy` logs. -/
theorem step_done_frames (s : WT.St) (r : Nat) (ok : Bool) :
    (WT.step s (.done r ok)).2.frames =
      if ok then (match inflightOf s r with | some w => w.notes.map (fun n => (w.lane, n)) | none => []) else [] := by
  have horph : (stepOrphan s r ok).2.frames =
      if ok then (match (s.orphans.find? (fun p => p.1 = r)).map (fun p => p.2) with
        | some w => w.notes.map (fun n => (w.lane, n))
        | none => []) else [] := by
    unfold stepOrphan
    cases hfind : s.orphans.find? (fun p => decide (p.1 = r)) with
    | none => cases ok <;> simp
    | some p => obtain ⟨a, w⟩ := p; cases ok <;> simp
  unfold inflightOf
  simp only [WT.step]
  cases hrem : s.remote? r with
  | none => simp only []; exact horph
  | some rem =>
    simp only []
    cases hin : rem.inflight with
    | none => simp only []; exact horph
    | some w =>
      cases ok with
      | true => simp
      | false => simp only [St.removeRemote]; split <;> simp

theorem sentBy_done (s : WT.St) (r : Nat) (ok : Bool) :
    sentBy s (.done r ok) =
      if ok then (match inflightOf s r with | some w => w.notes.map (fun n => Entry.send r w.lid n) | none => []) else [] := by
  cases ok with
  | false => simp [sentBy]
  | true =>
    simp only [sentBy, ↓reduceIte]
    cases inflightOf s r <;> rfl

end SwimVerif.Persist
