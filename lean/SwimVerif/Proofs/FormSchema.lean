/-
C16 helper lemmas: reading back what the struct layout writes (by group), then the round trip of a derived struct
from the round trips of its field types.
-/
import SwimVerif.Model.FormWF

namespace SwimVerif.Form

/-- (index, value) pairs of a group of fields in an instance -/
def pairsOf (xs : List Inst) (g : List FieldC) : Acc := g.map fun f => (f.idx, fieldVal xs f)

def kept (xs : List Inst) (g : List FieldC) : List FieldC := g.filter fun f => !f.c.omits (fieldVal xs f)

def NameNodup (g : List FieldC) : Prop := g.Pairwise fun a b => a.name ≠ b.name
def IdxNodup (g : List FieldC) : Prop := g.Pairwise fun a b => a.idx ≠ b.idx

theorem findField_mem {tbl : List FieldC} {f : FieldC} (hm : f ∈ tbl) (hn : NameNodup tbl) :
    findField tbl f.name = some f := by
  induction tbl with
  | nil => cases hm
  | cons a rest ih =>
    unfold findField
    rw [List.find?_cons]
    rcases List.mem_cons.mp hm with h | h
    · subst h; simp
    · have hne : a.name ≠ f.name := (List.pairwise_cons.mp hn).1 f h
      have : (a.name == f.name) = false := by simpa using hne
      rw [this]
      exact ih h (List.pairwise_cons.mp hn).2

theorem has_append_single (acc : Acc) (i j : Nat) (x : Inst) :
    Acc.has (acc ++ [(i, x)]) j = (acc.has j || i == j) := by
  simp [Acc.has]

theorem readSlots_write (r : Bool) (tbl : List FieldC) (xs : List Inst) (hn : NameNodup tbl) :
    ∀ (g : List FieldC) (acc : Acc),
      (∀ f ∈ g, f ∈ tbl) →
      (∀ f ∈ g, f.c.dec r (f.c.enc (fieldVal xs f)) = some (fieldVal xs f)) →
      IdxNodup g → (∀ f ∈ g, acc.has f.idx = false) →
      readSlots r tbl acc (writeSlots (withVals xs g)) = some (acc ++ pairsOf xs (kept xs g)) := by
  intro g
  induction g with
  | nil => intro acc _ _ _ _; simp [withVals, writeSlots, readSlots, pairsOf, kept]
  | cons f g ih =>
    intro acc hmem hdec hidx hacc
    have hf : f ∈ tbl := hmem f (List.mem_cons_self ..)
    have hmem' : ∀ f' ∈ g, f' ∈ tbl := fun f' h => hmem f' (List.mem_cons_of_mem _ h)
    have hdec' : ∀ f' ∈ g, f'.c.dec r (f'.c.enc (fieldVal xs f')) = some (fieldVal xs f') :=
      fun f' h => hdec f' (List.mem_cons_of_mem _ h)
    have hidx' : IdxNodup g := (List.pairwise_cons.mp hidx).2
    by_cases ho : f.c.omits (fieldVal xs f) = true
    · have : readSlots r tbl acc (writeSlots (withVals xs (f :: g))) = readSlots r tbl acc (writeSlots (withVals xs g)) := by
        simp [withVals, writeSlots, ho]
      rw [this, ih acc hmem' hdec' hidx' (fun f' h => hacc f' (List.mem_cons_of_mem _ h))]
      simp [kept, ho]
    · have ho' : f.c.omits (fieldVal xs f) = false := by simpa using ho
      have hw : writeSlots (withVals xs (f :: g)) =
          (some (Val.text f.name), f.c.enc (fieldVal xs f)) :: writeSlots (withVals xs g) := by
        simp [withVals, writeSlots, ho']
      rw [hw]
      unfold readSlots
      simp only [findField_mem hf hn, hacc f (List.mem_cons_self ..), hdec f (List.mem_cons_self ..)]
      have hacc' : ∀ f' ∈ g, Acc.has (acc ++ [(f.idx, fieldVal xs f)]) f'.idx = false := by
        intro f' h
        rw [has_append_single]
        have h1 := hacc f' (List.mem_cons_of_mem _ h)
        have h2 : f.idx ≠ f'.idx := (List.pairwise_cons.mp hidx).1 f' h
        simp [h1, h2]
      simp only [Bool.false_eq_true, ↓reduceIte]
      rw [ih _ hmem' hdec' hidx' hacc']
      simp [kept, ho', pairsOf]

/-- The first attribute of the delegated part, if any, is not the name of an attribute field. -/
def HeadNotIn (tbl : List FieldC) (more : List Attr) : Prop :=
  ∀ n v r, more = (n, v) :: r → findField tbl n = none

theorem readAttrs_write (r : Bool) (tbl : List FieldC) (xs : List Inst) (hn : NameNodup tbl) (more : List Attr)
    (hmore : HeadNotIn tbl more) :
    ∀ (g : List FieldC) (acc : Acc),
      (∀ f ∈ g, f ∈ tbl) →
      (∀ f ∈ g, f.c.decAttr r (f.c.enc (fieldVal xs f)) = some (fieldVal xs f)) →
      IdxNodup g → (∀ f ∈ g, acc.has f.idx = false) →
      readAttrs r tbl acc (writeAttrs (withVals xs g) ++ more) = some (acc ++ pairsOf xs g, more) := by
  intro g
  induction g with
  | nil =>
    intro acc _ _ _ _
    simp only [withVals, writeAttrs, List.map_nil, List.nil_append, pairsOf, List.append_nil]
    cases more with
    | nil => simp [readAttrs]
    | cons a r =>
      obtain ⟨n, v⟩ := a
      unfold readAttrs
      simp [hmore n v r rfl]
  | cons f g ih =>
    intro acc hmem hdec hidx hacc
    have hf : f ∈ tbl := hmem f (List.mem_cons_self ..)
    have hw : writeAttrs (withVals xs (f :: g)) ++ more =
        (f.name, f.c.enc (fieldVal xs f)) :: (writeAttrs (withVals xs g) ++ more) := by
      simp [withVals, writeAttrs]
    rw [hw]
    unfold readAttrs
    simp only [findField_mem hf hn, hacc f (List.mem_cons_self ..), hdec f (List.mem_cons_self ..)]
    have hacc' : ∀ f' ∈ g, Acc.has (acc ++ [(f.idx, fieldVal xs f)]) f'.idx = false := by
      intro f' h
      rw [has_append_single]
      have h1 := hacc f' (List.mem_cons_of_mem _ h)
      have h2 : f.idx ≠ f'.idx := (List.pairwise_cons.mp hidx).1 f' h
      simp [h1, h2]
    simp only [Bool.false_eq_true, ↓reduceIte]
    rw [ih _ (fun f' h => hmem f' (List.mem_cons_of_mem _ h)) (fun f' h => hdec f' (List.mem_cons_of_mem _ h))
      (List.pairwise_cons.mp hidx).2 hacc']
    simp [pairsOf]

/-- An accumulator all of whose entries are the instance's own field values. -/
def Consistent (xs : List Inst) (acc : Acc) : Prop := ∀ p ∈ acc, p.2 = xs.getD p.1 .unit

theorem consistent_pairsOf (xs : List Inst) (g : List FieldC) : Consistent xs (pairsOf xs g) := by
  intro p hp
  simp only [pairsOf, List.mem_map] at hp
  obtain ⟨f, _, rfl⟩ := hp
  rfl

theorem consistent_append {xs : List Inst} {a b : Acc} (ha : Consistent xs a) (hb : Consistent xs b) :
    Consistent xs (a ++ b) := by
  intro p hp
  rcases List.mem_append.mp hp with h | h
  · exact ha p h
  · exact hb p h

theorem lookup_consistent {xs : List Inst} {acc : Acc} (hc : Consistent xs acc) {i : Nat} {y : Inst}
    (h : acc.lookup i = some y) : y = xs.getD i .unit := by
  induction acc with
  | nil => simp at h
  | cons p rest ih =>
    obtain ⟨j, z⟩ := p
    rw [List.lookup_cons] at h
    by_cases hij : (i == j) = true
    · simp only [hij] at h
      have hz := hc (j, z) (List.mem_cons_self ..)
      have : i = j := by simpa using hij
      subst this
      simp at hz
      cases h; exact hz
    · have hij' : (i == j) = false := by simpa using hij
      simp only [hij'] at h
      exact ih (fun p hp => hc p (List.mem_cons_of_mem _ hp)) h

theorem lookup_none_of_not_has {acc : Acc} {i : Nat} (h : acc.lookup i = none) : acc.has i = false := by
  induction acc with
  | nil => simp [Acc.has]
  | cons p rest ih =>
    obtain ⟨j, z⟩ := p
    rw [List.lookup_cons] at h
    by_cases hij : (i == j) = true
    · simp [hij] at h
    · have hij' : (i == j) = false := by simpa using hij
      simp only [hij'] at h
      have := ih h
      have hji : (j == i) = false := by
        have : i ≠ j := by simpa using hij'
        simpa using (fun e => this e.symm)
      simp [Acc.has] at this ⊢
      exact ⟨by simpa using hji, this⟩

theorem has_pairsOf {xs : List Inst} {g : List FieldC} {f : FieldC} (h : f ∈ g) : (pairsOf xs g).has f.idx = true := by
  simp only [Acc.has, pairsOf, List.any_map, List.any_eq_true]
  exact ⟨f, h, by simp⟩

theorem has_append (a b : Acc) (i : Nat) : Acc.has (a ++ b) i = (a.has i || b.has i) := by
  simp [Acc.has]

/-- `on_done` gives the instance back when everything read is consistent and every field that is neither skipped
nor omitted was read. -/
theorem assemble_ok (xs : List Inst) (acc : Acc) (hc : Consistent xs acc) :
    ∀ (l : List FieldC),
      (∀ f ∈ l, f.kind = .skip → f.c.dflt = some (fieldVal xs f)) →
      (∀ f ∈ l, f.kind ≠ .skip → acc.has f.idx = true ∨ f.c.absent = some (fieldVal xs f)) →
      assemble acc l = some (l.map (fieldVal xs)) := by
  intro l
  induction l with
  | nil => intro _ _; simp [assemble]
  | cons f l ih =>
    intro hs hr
    have ih' := ih (fun f' h => hs f' (List.mem_cons_of_mem _ h)) (fun f' h => hr f' (List.mem_cons_of_mem _ h))
    unfold assemble
    by_cases hk : f.kind = .skip
    · simp [hk, hs f (List.mem_cons_self ..) hk, ih']
    · have hk' : (f.kind == FKind.skip) = false := by simpa using hk
      simp only [hk', Bool.false_eq_true, ↓reduceIte]
      cases hl : acc.lookup f.idx with
      | some y =>
        have : y = fieldVal xs f := lookup_consistent hc hl
        simp [this, ih']
      | none =>
        have hno := lookup_none_of_not_has hl
        rcases hr f (List.mem_cons_self ..) hk with h | h
        · rw [hno] at h; cases h
        · simp [h, ih']

/-! ### facts about the groups -/

theorem idx_inj {l : List FieldC} (h : IdxNodup l) {a b : FieldC} (ha : a ∈ l) (hb : b ∈ l) (hne : a ≠ b) :
    a.idx ≠ b.idx := by
  induction l with
  | nil => cases ha
  | cons x l ih =>
    have hp := List.pairwise_cons.mp h
    rcases List.mem_cons.mp ha with rfl | ha' <;> rcases List.mem_cons.mp hb with rfl | hb'
    · exact absurd rfl hne
    · exact hp.1 b hb'
    · exact fun e => hp.1 a ha' e.symm
    · exact ih hp.2 ha' hb'

theorem not_has_pairsOf {fs g : List FieldC} {xs : List Inst} {f : FieldC} (hfs : IdxNodup fs)
    (hg : ∀ a ∈ g, a ∈ fs) (hf : f ∈ fs) (hne : ∀ a ∈ g, a ≠ f) : (pairsOf xs g).has f.idx = false := by
  simp only [Acc.has, pairsOf, List.any_map]
  rw [List.any_eq_false]
  intro a ha
  have := idx_inj hfs (hg a ha) hf (hne a ha)
  simpa using this

theorem kind_of_isKind {k : FKind} {f : FieldC} (h : isKind k f = true) : f.kind = k := by
  simpa [isKind] using h

theorem mem_segAs {fs : List FieldC} {f : FieldC} : f ∈ segAs fs ↔ f ∈ fs ∧ f.kind = .attr := by
  simp [segAs, isKind]

theorem segHb_some {fs : List FieldC} {f : FieldC} (h : segHb fs = some f) : f ∈ fs ∧ f.kind = .headerBody := by
  unfold segHb at h
  exact ⟨List.mem_of_find?_eq_some h, kind_of_isKind (List.find?_some h)⟩

theorem segBody_some {fs : List FieldC} {f : FieldC} (h : segBody fs = some f) : f ∈ fs ∧ f.kind = .body := by
  unfold segBody at h
  exact ⟨List.mem_of_find?_eq_some h, kind_of_isKind (List.find?_some h)⟩

theorem hasBody_iff_segBody {fs : List FieldC} : hasBody fs = true ↔ ∃ f, segBody fs = some f := by
  unfold hasBody segBody
  rw [List.any_eq_true]
  constructor
  · rintro ⟨a, ha, hk⟩
    cases h : fs.find? (isKind .body) with
    | none => rw [List.find?_eq_none] at h; exact absurd hk (h a ha)
    | some f => exact ⟨f, rfl⟩
  · rintro ⟨f, hf⟩
    exact ⟨f, List.mem_of_find?_eq_some hf, List.find?_some hf⟩

/-- A list with at most one element satisfying `p`: `find?` returns that element. -/
theorem find?_unique {p : FieldC → Bool} {l : List FieldC} {f : FieldC} (hc : (l.filter p).length ≤ 1)
    (hm : f ∈ l) (hp : p f = true) : l.find? p = some f := by
  induction l with
  | nil => cases hm
  | cons a l ih =>
    rw [List.find?_cons]
    by_cases hpa : p a = true
    · simp only [hpa]
      rcases List.mem_cons.mp hm with rfl | hm'
      · rfl
      · exfalso
        have : f ∈ l.filter p := List.mem_filter.mpr ⟨hm', hp⟩
        have hl : 0 < (l.filter p).length := List.length_pos_of_mem this
        rw [List.filter_cons_of_pos hpa, List.length_cons] at hc
        omega
    · have hpa' : p a = false := by simpa using hpa
      simp only [hpa']
      rcases List.mem_cons.mp hm with rfl | hm'
      · rw [hp] at hpa'; cases hpa'
      · apply ih _ hm'
        rw [List.filter_cons_of_neg (by simp [hpa'])] at hc
        exact hc

theorem split_body {fs : List FieldC} (h : hasBody fs = true) :
    ∃ b, fs = preBody fs ++ b :: postBody fs ∧ b.kind = .body ∧ ∀ a ∈ preBody fs, a.kind ≠ .body := by
  induction fs with
  | nil => simp [hasBody] at h
  | cons a l ih =>
    by_cases ha : a.kind = .body
    · refine ⟨a, ?_, ha, ?_⟩ <;> simp [preBody, postBody, notBody, ha]
    · have hnb : notBody a = true := by simp [notBody, ha]
      have hl : hasBody l = true := by
        simp only [hasBody, List.any_cons, Bool.or_eq_true] at h
        rcases h with h | h
        · exact absurd (kind_of_isKind h) ha
        · exact h
      obtain ⟨b, hb1, hb2, hb3⟩ := ih hl
      refine ⟨b, ?_, hb2, ?_⟩
      · simp only [preBody, postBody, List.takeWhile_cons, List.dropWhile_cons, hnb, ↓reduceIte, List.cons_append]
        congr 1
      · intro x hx
        simp only [preBody, List.takeWhile_cons, hnb, ↓reduceIte, List.mem_cons] at hx
        rcases hx with rfl | hx
        · exact ha
        · exact hb3 x hx

theorem mem_segHs {fs : List FieldC} {f : FieldC} (h : f ∈ segHs fs) :
    f ∈ fs ∧ (f.kind = .header ∨ f.kind = .slot) := by
  unfold segHs at h
  by_cases hb : hasBody fs = true
  · obtain ⟨b, hsplit, _, _⟩ := split_body hb
    simp only [hb, ↓reduceIte, List.mem_append, List.mem_filter] at h
    rcases h with (⟨hm, hk⟩ | ⟨hm, hk⟩) | ⟨hm, hk⟩
    · exact ⟨by rw [hsplit]; exact List.mem_append_left _ hm, Or.inl (kind_of_isKind hk)⟩
    · exact ⟨by rw [hsplit]; exact List.mem_append_left _ hm, Or.inr (kind_of_isKind hk)⟩
    · refine ⟨by rw [hsplit]; exact List.mem_append_right _ (List.mem_cons_of_mem _ hm), ?_⟩
      simpa [headerOrSlot] using hk
  · have hb' : hasBody fs = false := by simpa using hb
    simp only [hb', Bool.false_eq_true, ↓reduceIte, List.mem_filter] at h
    exact ⟨h.1, Or.inl (kind_of_isKind h.2)⟩

theorem mem_segSlots {fs : List FieldC} {f : FieldC} (h : f ∈ segSlots fs) : f ∈ fs ∧ f.kind = .slot := by
  unfold segSlots at h
  by_cases hb : hasBody fs = true
  · simp [hb] at h
  · have hb' : hasBody fs = false := by simpa using hb
    simp only [hb', Bool.false_eq_true, ↓reduceIte, List.mem_filter] at h
    exact ⟨h.1, kind_of_isKind h.2⟩

/-- every header field, and with a replaced body every slot field, is in the header group -/
theorem segHs_complete {fs : List FieldC} {f : FieldC} (hm : f ∈ fs)
    (hk : f.kind = .header ∨ (f.kind = .slot ∧ hasBody fs = true)) : f ∈ segHs fs := by
  unfold segHs
  by_cases hb : hasBody fs = true
  · obtain ⟨b, hsplit, hbk, _⟩ := split_body hb
    simp only [hb, ↓reduceIte, List.mem_append, List.mem_filter]
    rw [hsplit] at hm
    have hfk : f.kind = .header ∨ f.kind = .slot := by
      rcases hk with h | h
      · exact Or.inl h
      · exact Or.inr h.1
    rcases List.mem_append.mp hm with h | h
    · rcases hfk with hh | hh
      · exact Or.inl (Or.inl ⟨h, by simp [isKind, hh]⟩)
      · exact Or.inl (Or.inr ⟨h, by simp [isKind, hh]⟩)
    · rcases List.mem_cons.mp h with rfl | h
      · rcases hfk with hh | hh <;> rw [hbk] at hh <;> cases hh
      · refine Or.inr ⟨h, ?_⟩
        rcases hfk with hh | hh <;> simp [headerOrSlot, hh]
  · have hb' : hasBody fs = false := by simpa using hb
    simp only [hb', Bool.false_eq_true, ↓reduceIte, List.mem_filter]
    rcases hk with h | h
    · exact ⟨hm, by simp [isKind, h]⟩
    · rw [hb'] at h; cases h.2

theorem segSlots_complete {fs : List FieldC} {f : FieldC} (hm : f ∈ fs) (hk : f.kind = .slot)
    (hb : hasBody fs = false) : f ∈ segSlots fs := by
  simp [segSlots, hb, hm, isKind, hk]

theorem idxNodup_filter {l : List FieldC} (p : FieldC → Bool) (h : IdxNodup l) : IdxNodup (l.filter p) :=
  List.Pairwise.sublist List.filter_sublist h

theorem idxNodup_segHs {fs : List FieldC} (h : IdxNodup fs) : IdxNodup (segHs fs) := by
  unfold segHs
  by_cases hb : hasBody fs = true
  · obtain ⟨b, hsplit, _, _⟩ := split_body hb
    simp only [hb, ↓reduceIte]
    rw [hsplit] at h
    have hp := List.pairwise_append.mp h
    have hpre : IdxNodup (preBody fs) := hp.1
    have hpost : IdxNodup (postBody fs) := (List.pairwise_cons.mp hp.2.1).2
    unfold IdxNodup
    rw [List.pairwise_append]
    refine ⟨?_, idxNodup_filter _ hpost, ?_⟩
    · rw [List.pairwise_append]
      refine ⟨idxNodup_filter _ hpre, idxNodup_filter _ hpre, ?_⟩
      intro a ha c hc
      have ha' := List.mem_filter.mp ha
      have hc' := List.mem_filter.mp hc
      apply idx_inj hpre ha'.1 hc'.1
      intro e
      have h1 := kind_of_isKind ha'.2
      have h2 := kind_of_isKind hc'.2
      rw [e] at h1; rw [h1] at h2; cases h2
    · intro a ha c hc
      have ha' : a ∈ preBody fs := by
        rcases List.mem_append.mp ha with h | h <;> exact (List.mem_filter.mp h).1
      have hc' : c ∈ postBody fs := (List.mem_filter.mp hc).1
      exact hp.2.2 a ha' c (List.mem_cons_of_mem _ hc')
  · have hb' : hasBody fs = false := by simpa using hb
    simp only [hb', Bool.false_eq_true, ↓reduceIte]
    exact idxNodup_filter _ h

theorem idxNodup_segSlots {fs : List FieldC} (h : IdxNodup fs) : IdxNodup (segSlots fs) := by
  unfold segSlots
  by_cases hb : hasBody fs = true
  · simp [hb, IdxNodup]
  · have hb' : hasBody fs = false := by simpa using hb
    simp only [hb', Bool.false_eq_true, ↓reduceIte]
    exact idxNodup_filter _ h

theorem nameNodup_of_distinct {l : List FieldC} (h : distinct (l.map (·.name)) = true) : NameNodup l := by
  induction l with
  | nil => exact List.Pairwise.nil
  | cons a l ih =>
    simp only [List.map_cons, distinct, Bool.and_eq_true, Bool.not_eq_true'] at h
    refine List.pairwise_cons.mpr ⟨?_, ih h.2⟩
    intro b hb e
    have : (l.map (·.name)).contains a.name = true := by
      rw [List.contains_iff_mem]
      exact List.mem_map.mpr ⟨b, hb, e.symm⟩
    rw [h.1] at this; cases this

/-! ### round trip of a derived struct from the properties of its fields -/

/-- What `with_delegate_body` splices: the attributes and items a delegated body contributes. -/
def bodySplit : Val → List Attr × List Item
  | .record more items => (more, items)
  | b => ([], [(none, b)])

theorem delegateBody_eq (attrs : List Attr) (b : Val) :
    delegateBody attrs b = .record (attrs ++ (bodySplit b).1) (bodySplit b).2 := by
  cases b <;> simp [delegateBody, bodySplit]

/-- What the struct layout needs from field `f` holding its value in the instance `xs`
(`tbl` = the attribute fields of the struct). -/
structure FieldGood (r : Bool) (tbl : List FieldC) (xs : List Inst) (f : FieldC) : Prop where
  dec_enc : f.kind ≠ .skip → f.c.dec r (f.c.enc (fieldVal xs f)) = some (fieldVal xs f)
  attr : f.kind = .attr ∨ f.kind = .headerBody → f.c.decAttr r (f.c.enc (fieldVal xs f)) = some (fieldVal xs f)
  flat : f.kind = .headerBody → ∀ rest, f.c.dec r (.record [] ((none, f.c.enc (fieldVal xs f)) :: rest)) = none
  body : f.kind = .body →
    f.c.decBody r (bodySplit (f.c.enc (fieldVal xs f))).1 (bodySplit (f.c.enc (fieldVal xs f))).2 = some (fieldVal xs f)
    ∧ HeadNotIn tbl (bodySplit (f.c.enc (fieldVal xs f))).1
  omitted : f.kind ≠ .skip → f.c.omits (fieldVal xs f) = true → f.c.absent = some (fieldVal xs f)
  skip : f.kind = .skip → f.c.dflt = some (fieldVal xs f)

/-- The fields read from the tag attribute. -/
def headerFields (fs : List FieldC) (xs : List Inst) : List FieldC :=
  (segHb fs).toList ++ kept xs (segHs fs)

theorem readHeader_write (r : Bool) (fs : List FieldC) (xs : List Inst) (hidx : IdxNodup fs)
    (hn : NameNodup (segHs fs)) (hg : ∀ f ∈ fs, FieldGood r (segAs fs) xs f) :
    readHeader r fs (headerVal fs xs) = some (pairsOf xs (headerFields fs xs)) := by
  have hsdec : ∀ f ∈ segHs fs, f.c.dec r (f.c.enc (fieldVal xs f)) = some (fieldVal xs f) := by
    intro f hf
    have := mem_segHs hf
    apply (hg f this.1).dec_enc
    rcases this.2 with h | h <;> rw [h] <;> decide
  have hsidx := idxNodup_segHs hidx
  unfold readHeader headerVal headerFields
  cases hhb : segHb fs with
  | none =>
    cases hhs : segHs fs with
    | nil => simp [Val.isExtant, pairsOf, kept]
    | cons a l =>
      simp only [headerFlat, headerNested, Option.toList_none, List.nil_append]
      have := readSlots_write r (segHs fs) xs hn (segHs fs) [] (fun f h => h) hsdec hsidx (fun f _ => by simp [Acc.has])
      rw [hhs] at this
      simpa using this
  | some f =>
    have hf := segHb_some hhb
    have hgf := hg f hf.1
    cases hhs : segHs fs with
    | nil => simp [hgf.attr (Or.inr hf.2), pairsOf, kept]
    | cons a l =>
      simp only [headerFlat, headerNested, hgf.flat hf.2, hgf.dec_enc (by rw [hf.2]; decide), Option.toList_some]
      have hacc : ∀ f' ∈ segHs fs, Acc.has [(f.idx, fieldVal xs f)] f'.idx = false := by
        intro f' hf'
        have hm := mem_segHs hf'
        have : f ≠ f' := by
          intro e
          rw [e] at hf
          rcases hm.2 with h | h <;> rw [h] at hf <;> cases hf.2
        have := idx_inj hidx hf.1 hm.1 this
        simp [Acc.has, this]
      have := readSlots_write r (segHs fs) xs hn (segHs fs) [(f.idx, fieldVal xs f)] (fun f h => h) hsdec hsidx hacc
      rw [hhs] at this
      simpa [pairsOf] using this

theorem pairsOf_append (xs : List Inst) (a b : List FieldC) : pairsOf xs (a ++ b) = pairsOf xs a ++ pairsOf xs b := by
  simp [pairsOf]

/-- All the fields whose value is read back (everything but skipped fields and omitted slots). -/
def readFields (fs : List FieldC) (xs : List Inst) : List FieldC :=
  headerFields fs xs ++ segAs fs ++ (match segBody fs with
    | some b => [b]
    | none => if bodyLabelled fs then kept xs (segSlots fs) else segSlots fs)

theorem mem_headerFields {fs : List FieldC} {xs : List Inst} {f : FieldC} (h : f ∈ headerFields fs xs) :
    f ∈ fs ∧ (f.kind = .headerBody ∨ f.kind = .header ∨ f.kind = .slot) := by
  unfold headerFields at h
  rcases List.mem_append.mp h with h | h
  · have : segHb fs = some f := by
      cases hh : segHb fs with
      | none => simp [hh] at h
      | some g => simp [hh] at h; rw [h]
    have := segHb_some this
    exact ⟨this.1, Or.inl this.2⟩
  · have := mem_segHs (List.mem_filter.mp h).1
    exact ⟨this.1, Or.inr this.2⟩

theorem readOrdinal_write (r : Bool) (xs : List Inst) :
    ∀ (g : List FieldC) (acc : Acc),
      (∀ f ∈ g, f.c.dec r (f.c.enc (fieldVal xs f)) = some (fieldVal xs f)) →
      readOrdinal r g acc (writeValues (withVals xs g)) = some (acc ++ pairsOf xs g) := by
  intro g
  induction g with
  | nil => intro acc _; simp [withVals, writeValues, readOrdinal, pairsOf]
  | cons f g ih =>
    intro acc hdec
    have hw : writeValues (withVals xs (f :: g)) = (none, f.c.enc (fieldVal xs f)) :: writeValues (withVals xs g) := by
      simp [withVals, writeValues]
    rw [hw]
    unfold readOrdinal
    simp only [hdec f (List.mem_cons_self ..)]
    rw [ih _ (fun f' h => hdec f' (List.mem_cons_of_mem _ h))]
    simp [pairsOf]

/-- The two shapes of a standard body allowed by `assess_kind`. -/
theorem body_shape {fs : List FieldC} (hwf : structWF fs = true) :
    (bodyLabelled fs = true ∧ NameNodup (segSlots fs)) ∨ bodyLabelled fs = false := by
  simp only [structWF, Bool.and_eq_true, Bool.or_eq_true] at hwf
  by_cases hl : bodyLabelled fs = true
  · left
    refine ⟨hl, ?_⟩
    rcases hwf.2 with h | h
    · exact nameNodup_of_distinct h.2
    · exfalso
      unfold bodyLabelled at hl
      simp only [Bool.and_eq_true, Bool.not_eq_true', List.isEmpty_eq_false_iff] at hl
      cases hs : segSlots fs with
      | nil => exact hl.1 hs
      | cons a l =>
        rw [hs] at h hl
        simp only [List.all_cons, Bool.and_eq_true, Bool.not_eq_true'] at h hl
        rw [h.1] at hl; cases hl.2.1
  · right; simpa using hl

/-- every field that is not skipped has been read, or was omitted (and then `on_absent` restores it) -/
theorem coverage (r : Bool) (fs : List FieldC) (xs : List Inst) (hwf : structWF fs = true)
    (hg : ∀ f ∈ fs, FieldGood r (segAs fs) xs f) (f : FieldC) (hf : f ∈ fs) (hk : f.kind ≠ .skip) :
    (pairsOf xs (readFields fs xs)).has f.idx = true ∨ f.c.absent = some (fieldVal xs f) := by
  simp only [structWF, Bool.and_eq_true, decide_eq_true_eq] at hwf
  obtain ⟨⟨⟨⟨hb1, hhb1⟩, _⟩, _⟩, _⟩ := hwf
  by_cases ho : f.c.omits (fieldVal xs f) = true ∧ (f.kind = .header ∨ f.kind = .slot)
  · exact Or.inr ((hg f hf).omitted hk ho.1)
  · left
    apply has_pairsOf
    unfold readFields headerFields
    have hkept : ∀ g : List FieldC, f ∈ g → (f.kind = .header ∨ f.kind = .slot) → f ∈ kept xs g := by
      intro g hfg hks
      refine List.mem_filter.mpr ⟨hfg, ?_⟩
      have : ¬ f.c.omits (fieldVal xs f) = true := fun h => ho ⟨h, hks⟩
      simpa using this
    cases hkind : f.kind with
    | skip => exact absurd hkind hk
    | header =>
      have := hkept _ (segHs_complete hf (Or.inl hkind)) (Or.inl hkind)
      simp [this]
    | headerBody =>
      have : segHb fs = some f := find?_unique hhb1 hf (by simp [isKind, hkind])
      simp [this]
    | attr =>
      have : f ∈ segAs fs := mem_segAs.mpr ⟨hf, hkind⟩
      simp [this]
    | body =>
      have : segBody fs = some f := find?_unique hb1 hf (by simp [isKind, hkind])
      simp [this]
    | slot =>
      by_cases hb : hasBody fs = true
      · have := hkept _ (segHs_complete hf (Or.inr ⟨hkind, hb⟩)) (Or.inr hkind)
        simp [this]
      · have hb' : hasBody fs = false := by simpa using hb
        have hnone : segBody fs = none := by
          cases h : segBody fs with
          | none => rfl
          | some b => exact absurd (hasBody_iff_segBody.mpr ⟨b, h⟩) hb
        have hmem := segSlots_complete hf hkind hb'
        by_cases hl : bodyLabelled fs = true
        · have := hkept _ hmem (Or.inr hkind)
          simp [hnone, hl, this]
        · have hl' : bodyLabelled fs = false := by simpa using hl
          simp [hnone, hl', hmem]

theorem structDec_enc (r : Bool) (tag : String) (fs : List FieldC) (xs : List Inst)
    (hidx : IdxNodup fs) (hwf : structWF fs = true)
    (hg : ∀ f ∈ fs, FieldGood r (segAs fs) xs f) :
    structDec r tag fs (structEnc tag fs xs) = some (.struct (fs.map (fieldVal xs))) := by
  have hwf0 := hwf
  have hshape := body_shape hwf
  simp only [structWF, Bool.and_eq_true, decide_eq_true_eq] at hwf
  obtain ⟨⟨⟨⟨hb1, hhb1⟩, hnhs⟩, hnas⟩, _⟩ := hwf
  have hnhs := nameNodup_of_distinct hnhs
  have hnas := nameNodup_of_distinct hnas
  have hhdr := readHeader_write r fs xs hidx hnhs hg
  -- the attribute fields
  have hattr : ∀ more, HeadNotIn (segAs fs) more →
      readAttrs r (segAs fs) (pairsOf xs (headerFields fs xs)) (writeAttrs (withVals xs (segAs fs)) ++ more)
        = some (pairsOf xs (headerFields fs xs) ++ pairsOf xs (segAs fs), more) := by
    intro more hmore
    apply readAttrs_write r (segAs fs) xs hnas more hmore (segAs fs) _ (fun f h => h)
    · intro f hf
      have := mem_segAs.mp hf
      exact (hg f this.1).attr (Or.inl this.2)
    · exact idxNodup_filter _ hidx
    · intro f hf
      have hm := mem_segAs.mp hf
      apply not_has_pairsOf hidx (fun a ha => (mem_headerFields ha).1) hm.1
      intro a ha e
      have := (mem_headerFields ha).2
      rw [e, hm.2] at this
      rcases this with h | h | h <;> cases h
  -- final assembly
  have hfinal : assemble (pairsOf xs (readFields fs xs)) fs = some (fs.map (fieldVal xs)) := by
    apply assemble_ok xs _ (consistent_pairsOf xs _) fs
    · intro f hf hk; exact (hg f hf).skip hk
    · intro f hf hk; exact coverage r fs xs hwf0 hg f hf hk
  unfold structEnc
  cases hbody : segBody fs with
  | some b =>
    have hb := segBody_some hbody
    have hgb := (hg b hb.1).body hb.2
    simp only [delegateBody_eq]
    unfold structDec
    simp only [List.cons_append, beq_self_eq_true, ↓reduceIte]
    unfold structDecAfterTag
    simp only [hhdr, hattr _ hgb.2, hbody, hgb.1]
    have : pairsOf xs (headerFields fs xs) ++ pairsOf xs (segAs fs) ++ [(b.idx, fieldVal xs b)]
        = pairsOf xs (readFields fs xs) := by
      simp [readFields, hbody, pairsOf]
    rw [this, hfinal]
    rfl
  | none =>
    have hnb : hasBody fs = false := by
      cases h : hasBody fs with
      | false => rfl
      | true => obtain ⟨b, hb⟩ := hasBody_iff_segBody.mp h; rw [hbody] at hb; cases hb
    have hattr0 := hattr [] (by intro n v r h; cases h)
    rw [List.append_nil] at hattr0
    have hsdec : ∀ f ∈ segSlots fs, f.c.dec r (f.c.enc (fieldVal xs f)) = some (fieldVal xs f) := by
      intro f hf
      have hm := mem_segSlots hf
      apply (hg f hm.1).dec_enc
      rw [hm.2]; decide
    have hacc : ∀ f ∈ segSlots fs,
        Acc.has (pairsOf xs (headerFields fs xs) ++ pairsOf xs (segAs fs)) f.idx = false := by
      intro f hf
      have hm := mem_segSlots hf
      rw [← pairsOf_append]
      apply not_has_pairsOf hidx _ hm.1
      · intro a ha e
        rcases List.mem_append.mp ha with h | h
        · unfold headerFields at h
          rcases List.mem_append.mp h with h1 | h1
          · have : segHb fs = some a := by
              cases hh : segHb fs with
              | none => simp [hh] at h1
              | some g => simp [hh] at h1; rw [h1]
            have := (segHb_some this).2
            rw [e, hm.2] at this; cases this
          · have h2 := (List.mem_filter.mp h1).1
            unfold segHs at h2
            simp only [hnb, Bool.false_eq_true, ↓reduceIte, List.mem_filter] at h2
            have := kind_of_isKind h2.2
            rw [e, hm.2] at this; cases this
        · have := (mem_segAs.mp h).2
          rw [e, hm.2] at this; cases this
      · intro a ha
        rcases List.mem_append.mp ha with h | h
        · exact (mem_headerFields h).1
        · exact (mem_segAs.mp h).1
    unfold structDec
    simp only [beq_self_eq_true, ↓reduceIte]
    rcases hshape with ⟨hl, hnsl⟩ | hl
    · have hslots := readSlots_write r (segSlots fs) xs hnsl (segSlots fs) _ (fun f h => h) hsdec
        (idxNodup_segSlots hidx) hacc
      have htarget : pairsOf xs (headerFields fs xs) ++ pairsOf xs (segAs fs) ++ pairsOf xs (kept xs (segSlots fs))
          = pairsOf xs (readFields fs xs) := by
        simp [readFields, hbody, hl, pairsOf_append]
      rw [htarget] at hslots
      simp only [hl, ↓reduceIte]
      unfold structDecAfterTag
      simp only [hhdr, hattr0, hbody, hl, ↓reduceIte, hslots, hfinal]
      simp
    · have hslots := readOrdinal_write r xs (segSlots fs)
        (pairsOf xs (headerFields fs xs) ++ pairsOf xs (segAs fs)) hsdec
      have htarget : pairsOf xs (headerFields fs xs) ++ pairsOf xs (segAs fs) ++ pairsOf xs (segSlots fs)
          = pairsOf xs (readFields fs xs) := by
        simp [readFields, hbody, hl, pairsOf_append]
      rw [htarget] at hslots
      simp only [hl, Bool.false_eq_true, ↓reduceIte]
      unfold structDecAfterTag
      simp only [hhdr, hattr0, hbody, hl, Bool.false_eq_true, ↓reduceIte, hslots, hfinal]
      simp
