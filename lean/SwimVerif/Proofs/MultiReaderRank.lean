/-
C11 (multiplexer part), fairness: a ranking function over the ready bits of `MultiReader`.

For a target stream at key `k` (bucket `k / 64`, index `k % 64`) every key `κ` gets a weight `wt … k κ ∈ {0,1,2}`: the
number of times the bit of `κ` can still be taken by `get_next_stream` before the bit of `k` is taken.  The rank is
the sum of the weights over the slab's keys, hence at most `2 * entries.length`.  This file: the weights and the three
pointwise comparisons (taking the minimum of the local flags and re-queueing it; flushing the queue flags into the
current bucket; moving to the next bucket).
-/
import SwimVerif.Proofs.MultiReaderPending

set_option linter.unusedSimpArgs false
set_option linter.unusedVariables false
namespace SwimVerif.MultiReader

/-! ### sums over the keys `0 … n-1` -/

def wsum : Nat → (Nat → Nat) → Nat
  | 0, _ => 0
  | n + 1, f => wsum n f + f n

theorem wsum_le (n : Nat) (f g : Nat → Nat) (h : ∀ κ, κ < n → f κ ≤ g κ) : wsum n f ≤ wsum n g := by
  induction n with
  | zero => exact Nat.le_refl _
  | succ n ih =>
    have := ih (fun κ hκ => h κ (by omega))
    have := h n (by omega)
    simp only [wsum]; omega

theorem wsum_lt (n : Nat) (f g : Nat → Nat) (h : ∀ κ, κ < n → f κ ≤ g κ) (κ0 : Nat) (h0 : κ0 < n)
    (hs : f κ0 < g κ0) : wsum n f < wsum n g := by
  induction n with
  | zero => omega
  | succ n ih =>
    have hle := wsum_le n f g (fun κ hκ => h κ (by omega))
    have hn := h n (by omega)
    simp only [wsum]
    by_cases e : κ0 = n
    · subst e; omega
    · have := ih (fun κ hκ => h κ (by omega)) (by omega)
      omega

theorem wsum_bound (n c : Nat) (f : Nat → Nat) (h : ∀ κ, κ < n → f κ ≤ c) : wsum n f ≤ c * n := by
  induction n with
  | zero => simp [wsum]
  | succ n ih =>
    have := ih (fun κ hκ => h κ (by omega))
    have := h n (by omega)
    simp only [wsum, Nat.mul_succ]; omega

theorem wsum_pos (n : Nat) (f : Nat → Nat) (κ0 : Nat) (h0 : κ0 < n) (hs : 0 < f κ0) : 0 < wsum n f := by
  have := wsum_lt n (fun _ => 0) f (fun _ _ => Nat.zero_le _) κ0 h0 hs
  omega

/-! ### the weights -/

/-- 1 if `p` holds, else 0 -/
def b2n (p : Prop) [Decidable p] : Nat := if p then 1 else 0

theorem b2n_le_one (p : Prop) [Decidable p] : b2n p ≤ 1 := by unfold b2n; split <;> omega
theorem b2n_pos (p : Prop) [Decidable p] (h : p) : b2n p = 1 := by unfold b2n; rw [if_pos h]
theorem b2n_neg (p : Prop) [Decidable p] (h : ¬ p) : b2n p = 0 := by unfold b2n; rw [if_neg h]
theorem b2n_mono (p q : Prop) [Decidable p] [Decidable q] (h : p → q) : b2n p ≤ b2n q := by
  by_cases hp : p
  · rw [b2n_pos p hp, b2n_pos q (h hp)]; omega
  · rw [b2n_neg p hp]; omega

/-- number of bucket changes until the walk of `get_next_stream`, now at `cur`, enters bucket `b`
(`B` buckets; a full cycle for `b = cur`) -/
def dist (B cur b : Nat) : Nat := if cur < b then b - cur else b + B - cur

theorem dist_self (B cur : Nat) : dist B cur cur = B := by unfold dist; split <;> omega
theorem dist_le (B cur b : Nat) (hb : b < B) (hc : cur < B) : dist B cur b ≤ B := by unfold dist; split <;> omega

/-- the walk moves on by one bucket: every other bucket is one step closer -/
theorem dist_next (B cur nx b : Nat) (hnx : (B ≤ cur + 1 ∧ nx = 0) ∨ (cur + 1 < B ∧ nx = cur + 1))
    (hc : cur < B) (hb : b < B) (hne : b ≠ nx) : dist B nx b + 1 = dist B cur b := by
  unfold dist
  rcases hnx with ⟨h1, h2⟩ | ⟨h1, h2⟩ <;> subst h2 <;> split <;> split <;> omega

theorem dist_next_self (B cur nx : Nat) (hnx : (B ≤ cur + 1 ∧ nx = 0) ∨ (cur + 1 < B ∧ nx = cur + 1))
    (hc : cur < B) (h2 : nx ≠ cur) : dist B cur nx = 1 := by
  unfold dist
  rcases hnx with ⟨h1, h2⟩ | ⟨h1, h2⟩ <;> subst h2 <;> split <;> omega

/-- how often the bit of key `κ` can be taken before the bit of key `k` is (see the head of the file);
`64` = `bucketSize` (`hB`) -/
def wt (B cur : Nat) (loc que : List Nat) (bs : List (List Nat)) (k κ : Nat) : Nat :=
  if k / 64 = cur ∧ k % 64 ∈ loc then
    b2n (κ / 64 = cur ∧ κ % 64 ∈ loc ∧ κ ≤ k)
  else
    b2n (κ / 64 = cur ∧ κ % 64 ∈ loc) +
    b2n (κ % 64 ∈ bs.getD (κ / 64) [] ∧ dist B cur (κ / 64) < dist B cur (k / 64)) +
    b2n (κ / 64 = k / 64 ∧ κ ≤ k ∧
        (κ % 64 ∈ bs.getD (κ / 64) [] ∨ (κ / 64 = cur ∧ (κ % 64 ∈ que ∨ κ % 64 ∈ loc))))

theorem wt_le_two (B cur : Nat) (loc que : List Nat) (bs : List (List Nat)) (k κ : Nat)
    (hk : k / 64 < B) (hc : cur < B) : wt B cur loc que bs k κ ≤ 2 := by
  unfold wt
  split
  · have := b2n_le_one (κ / 64 = cur ∧ κ % 64 ∈ loc ∧ κ ≤ k); omega
  · have t1 := b2n_le_one (κ / 64 = cur ∧ κ % 64 ∈ loc)
    have t2 := b2n_le_one (κ % 64 ∈ bs.getD (κ / 64) [] ∧ dist B cur (κ / 64) < dist B cur (k / 64))
    have t3 := b2n_le_one (κ / 64 = k / 64 ∧ κ ≤ k ∧
        (κ % 64 ∈ bs.getD (κ / 64) [] ∨ (κ / 64 = cur ∧ (κ % 64 ∈ que ∨ κ % 64 ∈ loc))))
    by_cases e : κ / 64 = cur
    · have := b2n_neg (κ % 64 ∈ bs.getD (κ / 64) [] ∧ dist B cur (κ / 64) < dist B cur (k / 64)) (by
        rintro ⟨_, c⟩
        rw [e, dist_self] at c
        have := dist_le B cur (k / 64) hk hc
        omega)
      omega
    · have := b2n_neg (κ / 64 = cur ∧ κ % 64 ∈ loc) (fun c => e c.1)
      omega

/-- the bit of the target itself counts -/
theorem wt_self (B cur : Nat) (loc que : List Nat) (bs : List (List Nat)) (k : Nat)
    (hf : k % 64 ∈ bs.getD (k / 64) [] ∨ (k / 64 = cur ∧ (k % 64 ∈ loc ∨ k % 64 ∈ que))) :
    0 < wt B cur loc que bs k k := by
  unfold wt
  split
  · rename_i hA
    rw [b2n_pos _ ⟨hA.1, hA.2, Nat.le_refl _⟩]; omega
  · have := b2n_pos (k / 64 = k / 64 ∧ k ≤ k ∧
        (k % 64 ∈ bs.getD (k / 64) [] ∨ (k / 64 = cur ∧ (k % 64 ∈ que ∨ k % 64 ∈ loc)))) (by
      refine ⟨rfl, Nat.le_refl _, ?_⟩
      rcases hf with h | ⟨h1, h | h⟩
      · exact Or.inl h
      · exact Or.inr ⟨h1, Or.inr h⟩
      · exact Or.inr ⟨h1, Or.inl h⟩)
    omega

/-- taking the minimum `m` of the local flags (and possibly re-queueing it) -/
theorem wt_pop (B cur : Nat) (loc loc' que que' : List Nat) (bs : List (List Nat)) (k m : Nat)
    (hm : m ∈ loc) (hmin : ∀ j ∈ loc, m ≤ j) (hne : ¬ (k / 64 = cur ∧ k % 64 = m))
    (hloc' : ∀ j, j ∈ loc' ↔ j ∈ loc ∧ j ≠ m) (hque' : ∀ j, j ∈ que' → j = m ∨ j ∈ que) (κ : Nat) :
    wt B cur loc' que' bs k κ ≤ wt B cur loc que bs k κ ∧
    (κ = m + cur * 64 → m < 64 → wt B cur loc' que' bs k κ < wt B cur loc que bs k κ) := by
  have hA : (k / 64 = cur ∧ k % 64 ∈ loc') ↔ (k / 64 = cur ∧ k % 64 ∈ loc) := by
    rw [hloc']
    constructor
    · rintro ⟨h1, h2, _⟩; exact ⟨h1, h2⟩
    · rintro ⟨h1, h2⟩; exact ⟨h1, h2, fun e => hne ⟨h1, e⟩⟩
  have hl := hloc' (κ % 64)
  have hq := hque' (κ % 64)
  unfold wt
  by_cases A : k / 64 = cur ∧ k % 64 ∈ loc
  · rw [if_pos A, if_pos (hA.mpr A)]
    have hmi := hmin _ A.2
    constructor
    · exact b2n_mono _ _ (fun c => ⟨c.1, (hl.mp c.2.1).1, c.2.2⟩)
    · intro e hm64
      have h1 : κ / 64 = cur := by omega
      have h2 : κ % 64 = m := by omega
      rw [b2n_neg (κ / 64 = cur ∧ κ % 64 ∈ loc' ∧ κ ≤ k) (fun c => (hl.mp c.2.1).2 h2),
        b2n_pos (κ / 64 = cur ∧ κ % 64 ∈ loc ∧ κ ≤ k) ⟨h1, by rw [h2]; exact hm, by have := A.1; omega⟩]
      omega
  · rw [if_neg A, if_neg (fun h => A (hA.mp h))]
    have t1 := b2n_mono (κ / 64 = cur ∧ κ % 64 ∈ loc') (κ / 64 = cur ∧ κ % 64 ∈ loc) (fun c => ⟨c.1, (hl.mp c.2).1⟩)
    have t3 := b2n_mono
      (κ / 64 = k / 64 ∧ κ ≤ k ∧ (κ % 64 ∈ bs.getD (κ / 64) [] ∨ (κ / 64 = cur ∧ (κ % 64 ∈ que' ∨ κ % 64 ∈ loc'))))
      (κ / 64 = k / 64 ∧ κ ≤ k ∧ (κ % 64 ∈ bs.getD (κ / 64) [] ∨ (κ / 64 = cur ∧ (κ % 64 ∈ que ∨ κ % 64 ∈ loc)))) (by
        rintro ⟨a, b, c | ⟨c1, c2 | c2⟩⟩
        · exact ⟨a, b, Or.inl c⟩
        · rcases hq c2 with e | c3
          · exact ⟨a, b, Or.inr ⟨c1, Or.inr (by rw [e]; exact hm)⟩⟩
          · exact ⟨a, b, Or.inr ⟨c1, Or.inl c3⟩⟩
        · exact ⟨a, b, Or.inr ⟨c1, Or.inr (hl.mp c2).1⟩⟩)
    constructor
    · omega
    · intro e hm64
      have e1 : κ / 64 = cur := by omega
      have e2 : κ % 64 = m := by omega
      have := b2n_neg (κ / 64 = cur ∧ κ % 64 ∈ loc') (fun c => (hl.mp c.2).2 e2)
      have := b2n_pos (κ / 64 = cur ∧ κ % 64 ∈ loc) ⟨e1, by rw [e2]; exact hm⟩
      omega

/-- `fetch_or(queue_flags.get_and_clear())` into the current bucket (the local flags are empty) -/
theorem wt_flush (B cur : Nat) (que : List Nat) (bs bs' : List (List Nat)) (k : Nat)
    (hbs' : ∀ b j, j ∈ bs'.getD b [] → j ∈ bs.getD b [] ∨ (b = cur ∧ j ∈ que)) (hkB : k / 64 < B)
    (hc : cur < B) (κ : Nat) :
    wt B cur [] [] bs' k κ ≤ wt B cur [] que bs k κ := by
  have hb := hbs' (κ / 64) (κ % 64)
  unfold wt
  rw [if_neg (by simp), if_neg (by simp)]
  have t1 : b2n (κ / 64 = cur ∧ κ % 64 ∈ ([] : List Nat)) = 0 := b2n_neg _ (by simp)
  have t2 := b2n_mono (κ % 64 ∈ bs'.getD (κ / 64) [] ∧ dist B cur (κ / 64) < dist B cur (k / 64))
      (κ % 64 ∈ bs.getD (κ / 64) [] ∧ dist B cur (κ / 64) < dist B cur (k / 64)) (by
    rintro ⟨a, b⟩
    rcases hb a with c | ⟨c, _⟩
    · exact ⟨c, b⟩
    · exfalso
      rw [c, dist_self] at b
      have := dist_le B cur (k / 64) hkB hc
      omega)
  have t3 := b2n_mono
      (κ / 64 = k / 64 ∧ κ ≤ k ∧ (κ % 64 ∈ bs'.getD (κ / 64) [] ∨ (κ / 64 = cur ∧ (κ % 64 ∈ ([] : List Nat) ∨ κ % 64 ∈ ([] : List Nat)))))
      (κ / 64 = k / 64 ∧ κ ≤ k ∧ (κ % 64 ∈ bs.getD (κ / 64) [] ∨ (κ / 64 = cur ∧ (κ % 64 ∈ que ∨ κ % 64 ∈ ([] : List Nat))))) (by
    rintro ⟨a, b, c | ⟨_, c | c⟩⟩
    · rcases hb c with d | d
      · exact ⟨a, b, Or.inl d⟩
      · exact ⟨a, b, Or.inr ⟨d.1, Or.inl d.2⟩⟩
    · simp at c
    · simp at c)
  omega

/-- `current_bucket += 1` (wrapping) and `fetch_and(0)` of the new bucket; local and queue flags are empty -/
theorem wt_enter (B cur nx : Nat) (bs bs' : List (List Nat)) (k : Nat)
    (hnx : (B ≤ cur + 1 ∧ nx = 0) ∨ (cur + 1 < B ∧ nx = cur + 1)) (hc : cur < B) (hkB : k / 64 < B)
    (hbs' : ∀ b, bs'.getD b [] = if nx = b then [] else bs.getD b [])
    (hrange : ∀ b, B ≤ b → bs.getD b [] = [])
    (hf : k % 64 ∈ bs.getD (k / 64) []) (κ : Nat) :
    wt B nx (bs.getD nx []) [] bs' k κ ≤ wt B cur [] [] bs k κ := by
  have hκB : κ % 64 ∈ bs.getD (κ / 64) [] → κ / 64 < B := by
    intro h
    rcases Nat.lt_or_ge (κ / 64) B with h' | h'
    · exact h'
    · rw [hrange _ h'] at h; simp at h
  have hb := hbs' (κ / 64)
  unfold wt
  rw [if_neg (by simp : ¬ (k / 64 = cur ∧ k % 64 ∈ ([] : List Nat)))]
  have s1 : b2n (κ / 64 = cur ∧ κ % 64 ∈ ([] : List Nat)) = 0 := b2n_neg _ (by simp)
  rw [s1]
  by_cases A : k / 64 = nx ∧ k % 64 ∈ bs.getD nx []
  · rw [if_pos A]
    have := b2n_mono (κ / 64 = nx ∧ κ % 64 ∈ bs.getD nx [] ∧ κ ≤ k)
      (κ / 64 = k / 64 ∧ κ ≤ k ∧ (κ % 64 ∈ bs.getD (κ / 64) [] ∨ (κ / 64 = cur ∧ (κ % 64 ∈ ([] : List Nat) ∨ κ % 64 ∈ ([] : List Nat))))) (by
      rintro ⟨a, b, c⟩
      exact ⟨by omega, c, Or.inl (by rw [a]; exact b)⟩)
    omega
  · rw [if_neg A]
    have hkn : k / 64 ≠ nx := by
      intro e; apply A; refine ⟨e, ?_⟩; rw [← e]; exact hf
    have hdk := dist_next B cur nx (k / 64) hnx hc hkB hkn
    by_cases e : κ / 64 = nx
    · -- keys of the bucket just entered: now local, before in a bucket ahead of the target
      rw [if_pos e.symm] at hb
      have c2 := b2n_neg (κ % 64 ∈ bs'.getD (κ / 64) [] ∧ dist B nx (κ / 64) < dist B nx (k / 64)) (by
        rw [hb]; simp)
      have c3 := b2n_neg (κ / 64 = k / 64 ∧ κ ≤ k ∧ (κ % 64 ∈ bs'.getD (κ / 64) [] ∨ (κ / 64 = nx ∧ (κ % 64 ∈ ([] : List Nat) ∨ κ % 64 ∈ bs.getD nx [])))) (by
        intro c; omega)
      have c1 := b2n_mono (κ / 64 = nx ∧ κ % 64 ∈ bs.getD nx [])
        (κ % 64 ∈ bs.getD (κ / 64) [] ∧ dist B cur (κ / 64) < dist B cur (k / 64)) (by
        rintro ⟨_, c⟩
        refine ⟨by rw [e]; exact c, ?_⟩
        rw [e]
        have hcn : nx ≠ cur := by
          intro e2
          -- then there is one bucket only, and the target is in it
          rcases hnx with ⟨h1, h2⟩ | ⟨h1, h2⟩ <;> omega
        rw [dist_next_self B cur nx hnx hc hcn]
        have : 0 < dist B nx (k / 64) := by unfold dist; split <;> omega
        omega)
      omega
    · rw [if_neg (fun h => e h.symm)] at hb
      have c1 := b2n_neg (κ / 64 = nx ∧ κ % 64 ∈ bs.getD nx []) (fun c => e c.1)
      have c2 := b2n_mono (κ % 64 ∈ bs'.getD (κ / 64) [] ∧ dist B nx (κ / 64) < dist B nx (k / 64))
        (κ % 64 ∈ bs.getD (κ / 64) [] ∧ dist B cur (κ / 64) < dist B cur (k / 64)) (by
        rw [hb]
        rintro ⟨a, b⟩
        refine ⟨a, ?_⟩
        have := dist_next B cur nx (κ / 64) hnx hc (hκB a) e
        omega)
      have c3 := b2n_mono
        (κ / 64 = k / 64 ∧ κ ≤ k ∧ (κ % 64 ∈ bs'.getD (κ / 64) [] ∨ (κ / 64 = nx ∧ (κ % 64 ∈ ([] : List Nat) ∨ κ % 64 ∈ bs.getD nx []))))
        (κ / 64 = k / 64 ∧ κ ≤ k ∧ (κ % 64 ∈ bs.getD (κ / 64) [] ∨ (κ / 64 = cur ∧ (κ % 64 ∈ ([] : List Nat) ∨ κ % 64 ∈ ([] : List Nat))))) (by
        rw [hb]
        rintro ⟨a, b, c | c⟩
        · exact ⟨a, b, Or.inl c⟩
        · exact absurd c.1 e)
      omega

end SwimVerif.MultiReader
