/-
C03 (map lane): the agent's `EventQueue<K, ()>` with wrapping epochs (`ML.EQ`) — its index bookkeeping implements a
coalescing queue with at most one entry per key and `clear` only at the head, as long as fewer than 2^64 entries are
queued.
-/
import SwimVerif.Model.MapLane
import SwimVerif.Proofs.AssocList

set_option linter.unusedVariables false
set_option linter.unusedSimpArgs false
namespace SwimVerif.ML

/-- keys queued -/
def qkeys (ev : List Act) : List Nat := ev.filterMap Act.key?

theorem qkeys_cons_some {a : Act} {k : Nat} (ev : List Act) (h : a.key? = some k) : qkeys (a :: ev) = k :: qkeys ev := by
  simp [qkeys, List.filterMap_cons, h]

theorem qkeys_cons_none {a : Act} (ev : List Act) (h : a.key? = none) : qkeys (a :: ev) = qkeys ev := by
  simp [qkeys, List.filterMap_cons, h]

theorem mem_qkeys {ev : List Act} {i : Nat} {a : Act} {k : Nat} (h : ev[i]? = some a) (hk : a.key? = some k) :
    k ∈ qkeys ev := by
  simp only [qkeys, List.mem_filterMap]
  exact ⟨a, List.mem_of_getElem? h, hk⟩

theorem qkeys_mem {ev : List Act} {k : Nat} (h : k ∈ qkeys ev) : ∃ (i : Nat) (a : Act), ev[i]? = some a ∧ a.key? = some k := by
  simp only [qkeys, List.mem_filterMap] at h
  obtain ⟨a, ha, hk⟩ := h
  obtain ⟨i, hi⟩ := List.getElem?_of_mem ha
  exact ⟨i, a, hi, hk⟩

theorem idx_unique : ∀ (ev : List Act) (i j : Nat) (a b : Act) (k : Nat), (qkeys ev).Nodup →
    ev[i]? = some a → ev[j]? = some b → a.key? = some k → b.key? = some k → i = j := by
  intro ev
  induction ev with
  | nil => intro i j a b k _ h; simp at h
  | cons x xs ih =>
    intro i j a b k hn hi hj ha hb
    cases i with
    | zero =>
      cases j with
      | zero => rfl
      | succ j =>
        simp at hi hj
        subst hi
        rw [qkeys_cons_some xs ha] at hn
        exact absurd (mem_qkeys hj hb) (List.nodup_cons.mp hn).1
    | succ i =>
      cases j with
      | zero =>
        simp at hi hj
        subst hj
        rw [qkeys_cons_some xs hb] at hn
        exact absurd (mem_qkeys hi ha) (List.nodup_cons.mp hn).1
      | succ j =>
        simp at hi hj
        have hn' : (qkeys xs).Nodup := by
          cases hx : x.key? with
          | none => rwa [qkeys_cons_none xs hx] at hn
          | some k' => rw [qkeys_cons_some xs hx] at hn; exact (List.nodup_cons.mp hn).2
        rw [ih i j a b k hn' hi hj ha hb]

theorem qkeys_append (ev : List Act) (a : Act) (k : Nat) (h : a.key? = some k) : qkeys (ev ++ [a]) = qkeys ev ++ [k] := by
  simp [qkeys, List.filterMap_append, h]

theorem qkeys_set : ∀ (ev : List Act) (i : Nat) (a b : Act), ev[i]? = some b → a.key? = b.key? →
    qkeys (ev.set i a) = qkeys ev := by
  intro ev
  induction ev with
  | nil => intro i a b h; simp at h
  | cons x xs ih =>
    intro i a b h hk
    cases i with
    | zero =>
      simp at h; subst h
      simp [qkeys, List.filterMap_cons, hk]
    | succ i =>
      simp at h
      have := ih i a b h hk
      simp only [qkeys] at this
      simp [qkeys, List.filterMap_cons, this]

/-- pigeonhole: a duplicate-free list inside another list is no longer than it -/
theorem nodup_subset_length_le : ∀ (l s : List Nat), l.Nodup → (∀ x, x ∈ l → x ∈ s) → l.length ≤ s.length := by
  intro l
  induction l with
  | nil => intro s _ _; simp
  | cons x xs ih =>
    intro s hn hs
    have hx : x ∈ s := hs x (List.mem_cons_self ..)
    have hn' := List.nodup_cons.mp hn
    have := ih (s.erase x) hn'.2 (fun y hy => by
      have hne : y ≠ x := fun h => hn'.1 (h ▸ hy)
      exact (List.mem_erase_of_ne hne).mpr (hs y (List.mem_cons_of_mem _ hy)))
    rw [List.length_erase_of_mem hx] at this
    have hpos : 0 < s.length := List.length_pos_of_mem hx
    simp only [List.length_cons]
    omega

structure EQInv (q : EQ) : Prop where
  head_lt : q.head < M64
  len_le : q.events.length ≤ M64
  nodup : (qkeys q.events).Nodup
  clear_head : ∀ i, q.events[i]? = some .clear → i = 0
  emap_iff : ∀ k e, alGet q.emap k = some e ↔
    ∃ i a, q.events[i]? = some a ∧ a.key? = some k ∧ e = (q.head + i) % M64

theorem eqinv_init : EQInv {} := by
  constructor <;> simp [M64, qkeys]

theorem key_ne_clear {a : Act} {k : Nat} (h : a.key? = some k) : a ≠ .clear := by
  intro hc; subst hc; simp [Act.key?] at h

theorem key_none_iff {a : Act} : a.key? = none ↔ a = .clear := by
  cases a <;> simp [Act.key?]

/-- all entries but the head carry a key: the queue is no longer than its keys plus one -/
theorem length_le_qkeys (ev : List Act) (h : ∀ i, ev[i]? = some .clear → i = 0) : ev.length ≤ (qkeys ev).length + 1 := by
  cases ev with
  | nil => simp
  | cons x xs =>
    have hxs : ∀ (l : List Act), (∀ a, a ∈ l → a ≠ .clear) → (qkeys l).length = l.length := by
      intro l
      induction l with
      | nil => intro _; simp [qkeys]
      | cons y ys ih =>
        intro hl
        have hy : y ≠ .clear := hl y (List.mem_cons_self ..)
        cases hk : y.key? with
        | none => exact absurd (key_none_iff.mp hk) hy
        | some k =>
          rw [qkeys_cons_some ys hk]
          simp [ih (fun a ha => hl a (List.mem_cons_of_mem _ ha))]
    have h1 : (qkeys xs).length = xs.length := by
      apply hxs
      intro a ha hc
      subst hc
      obtain ⟨i, hi⟩ := List.getElem?_of_mem ha
      have := h (i + 1) (by simpa using hi)
      omega
    have h2 : (qkeys xs).length ≤ (qkeys (x :: xs)).length := by
      cases hk : x.key? with
      | none => rw [qkeys_cons_none xs hk]; exact Nat.le_refl _
      | some k => rw [qkeys_cons_some xs hk]; simp
    simp only [List.length_cons]
    omega

/-- the `slot` computation finds exactly the queued entry of the key -/
theorem slot_some_iff {q : EQ} (h : EQInv q) (k i : Nat) :
    q.slot k = some i ↔ ∃ a, q.events[i]? = some a ∧ a.key? = some k := by
  have hh := h.head_lt
  have hl := h.len_le
  unfold EQ.slot
  constructor
  · intro hs
    cases he : alGet q.emap k with
    | none => simp [he] at hs
    | some e =>
      simp only [he] at hs
      obtain ⟨j, a, hj, hk, hje⟩ := (h.emap_iff k e).mp he
      have hjl : j < q.events.length := (List.getElem?_eq_some_iff.mp hj).1
      have : (e + M64 - q.head) % M64 = j := by
        subst hje
        simp only [M64] at *
        omega
      rw [this] at hs
      simp only [hjl, if_true] at hs
      have : j = i := by simpa using hs
      subst this
      exact ⟨a, hj, hk⟩
  · rintro ⟨a, hi, hk⟩
    have he := (h.emap_iff k ((q.head + i) % M64)).mpr ⟨i, a, hi, hk, rfl⟩
    have hil : i < q.events.length := (List.getElem?_eq_some_iff.mp hi).1
    have : ((q.head + i) % M64 + M64 - q.head) % M64 = i := by
      simp only [M64] at *
      omega
    simp only [he, this, hil, if_true]

theorem slot_none_iff {q : EQ} (h : EQInv q) (k : Nat) : q.slot k = none ↔ k ∉ qkeys q.events := by
  constructor
  · intro hs hm
    obtain ⟨i, a, hi, hk⟩ := qkeys_mem hm
    have := (slot_some_iff h k i).mpr ⟨a, hi, hk⟩
    rw [hs] at this
    cases this
  · intro hm
    cases hs : q.slot k with
    | none => rfl
    | some i =>
      obtain ⟨a, hi, hk⟩ := (slot_some_iff h k i).mp hs
      exact absurd (mem_qkeys hi hk) hm

theorem push_clear (q : EQ) : q.push .clear = { events := [.clear], head := 0, emap := [] } := by
  simp [EQ.push, Act.key?]

theorem push_hit (q : EQ) (a : Act) (k i : Nat) (hk : a.key? = some k) (hs : q.slot k = some i) :
    q.push a = { q with events := q.events.set i a } := by
  simp [EQ.push, hk, hs]

theorem push_miss (q : EQ) (a : Act) (k : Nat) (hk : a.key? = some k) (hs : q.slot k = none) :
    q.push a = { q with events := q.events ++ [a], emap := alSet q.emap k ((q.head + q.events.length) % M64) } := by
  simp [EQ.push, hk, hs]

theorem eqinv_push_clear (q : EQ) : EQInv (q.push .clear) := by
  rw [push_clear]
  constructor
  · simp [M64]
  · simp [M64]
  · simp [qkeys, List.filterMap_cons, Act.key?]
  · intro i hi
    cases i with
    | zero => rfl
    | succ i => simp at hi
  · intro k e
    simp only [alGet_nil]
    constructor
    · intro h; cases h
    · rintro ⟨i, a, hi, hk, _⟩
      cases i with
      | zero => simp at hi; subst hi; simp [Act.key?] at hk
      | succ i => simp at hi

theorem eqinv_push_hit {q : EQ} (h : EQInv q) (a b : Act) (k i : Nat) (hk : a.key? = some k)
    (hi : q.events[i]? = some b) (hb : b.key? = some k) : EQInv { q with events := q.events.set i a } := by
  have hil : i < q.events.length := (List.getElem?_eq_some_iff.mp hi).1
  constructor
  · exact h.head_lt
  · simpa using h.len_le
  · simp only
    rw [qkeys_set q.events i a b hi (by rw [hk, hb])]
    exact h.nodup
  · intro j hj
    simp only [List.getElem?_set] at hj
    by_cases hij : i = j
    · subst hij
      simp [hil] at hj
      exact absurd hj (key_ne_clear hk)
    · simp only [hij, if_false] at hj
      exact h.clear_head j hj
  · intro k' e
    rw [h.emap_iff k' e]
    simp only
    constructor
    · rintro ⟨j, c, hj, hc, he⟩
      by_cases hij : i = j
      · subst hij
        rw [hi] at hj
        have : b = c := by simpa using hj
        subst this
        have : k = k' := by rw [hb] at hc; simpa using hc
        subst this
        exact ⟨i, a, by simp [List.getElem?_set, hil], hk, he⟩
      · exact ⟨j, c, by simp [List.getElem?_set, hij, hj], hc, he⟩
    · rintro ⟨j, c, hj, hc, he⟩
      simp only [List.getElem?_set] at hj
      by_cases hij : i = j
      · subst hij
        simp [hil] at hj
        subst hj
        have : k = k' := by rw [hk] at hc; simpa using hc
        subst this
        exact ⟨i, b, hi, hb, he⟩
      · simp only [hij, if_false] at hj
        exact ⟨j, c, hj, hc, he⟩

theorem eqinv_push_miss {q : EQ} (h : EQInv q) (a : Act) (k : Nat) (hk : a.key? = some k)
    (hm : k ∉ qkeys q.events) (hlen : q.events.length < M64) :
    EQInv { q with events := q.events ++ [a], emap := alSet q.emap k ((q.head + q.events.length) % M64) } := by
  constructor
  · exact h.head_lt
  · simp only [List.length_append, List.length_cons, List.length_nil]; omega
  · simp only
    rw [qkeys_append q.events a k hk]
    exact List.nodup_append.mpr ⟨h.nodup, by simp, by
      intro x hx y hy
      simp at hy; subst hy
      intro hxy; subst hxy; exact hm hx⟩
  · intro j hj
    simp only [List.getElem?_append] at hj
    split at hj
    · exact h.clear_head j hj
    · have : a = .clear := by
        cases hjj : j - q.events.length with
        | zero => simp [hjj] at hj; exact hj
        | succ n => simp [hjj] at hj
      exact absurd this (key_ne_clear hk)
  · intro k' e
    simp only
    rw [alGet_alSet]
    by_cases hkk : k = k'
    · subst hkk
      simp only [if_true]
      constructor
      · intro he
        have : e = (q.head + q.events.length) % M64 := by simpa using he.symm
        exact ⟨q.events.length, a, by simp, hk, this⟩
      · rintro ⟨j, c, hj, hc, he⟩
        simp only [List.getElem?_append] at hj
        split at hj
        · exact absurd (mem_qkeys hj hc) hm
        · rename_i hge
          have : j = q.events.length := by
            cases hjj : j - q.events.length with
            | zero => omega
            | succ n => simp [hjj] at hj
          subst this
          rw [he]
    · simp only [hkk, if_false]
      rw [h.emap_iff k' e]
      constructor
      · rintro ⟨j, c, hj, hc, he⟩
        have hjl : j < q.events.length := (List.getElem?_eq_some_iff.mp hj).1
        exact ⟨j, c, by rw [List.getElem?_append_left hjl]; exact hj, hc, he⟩
      · rintro ⟨j, c, hj, hc, he⟩
        simp only [List.getElem?_append] at hj
        split at hj
        · exact ⟨j, c, hj, hc, he⟩
        · have : c = a := by
            cases hjj : j - q.events.length with
            | zero => simp [hjj] at hj; exact hj.symm
            | succ n => simp [hjj] at hj
          subst this
          rw [hk] at hc
          exact absurd (by simpa using hc) hkk

def popEmap (emap : List (Nat × Nat)) (a : Act) : List (Nat × Nat) :=
  match a.key? with
  | some k => alErase emap k
  | none => emap

theorem pop_cons (q : EQ) (a : Act) (rest : List Act) (h : q.events = a :: rest) :
    q.pop = (some a, { events := rest, head := (q.head + 1) % M64, emap := popEmap q.emap a }) := by
  cases hk : a.key? <;> simp [EQ.pop, h, hk, popEmap]

theorem pop_nil (q : EQ) (h : q.events = []) : q.pop = (none, q) := by
  simp [EQ.pop, h]

theorem eqinv_pop {q : EQ} (h : EQInv q) (a : Act) (rest : List Act) (he : q.events = a :: rest) :
    EQInv { events := rest, head := (q.head + 1) % M64, emap := popEmap q.emap a } := by
  have hl := h.len_le
  have hh := h.head_lt
  rw [he] at hl
  simp only [List.length_cons] at hl
  constructor
  · simp only [M64]; omega
  · simp only; omega
  · simp only
    have hn := h.nodup
    rw [he] at hn
    cases hx : a.key? with
    | none => rwa [qkeys_cons_none rest hx] at hn
    | some k' => rw [qkeys_cons_some rest hx] at hn; exact (List.nodup_cons.mp hn).2
  · intro i hi
    have := h.clear_head (i + 1) (by rw [he]; simpa using hi)
    omega
  · intro k e
    simp only
    have key : alGet (popEmap q.emap a) k =
        if a.key? = some k then none else alGet q.emap k := by
      unfold popEmap
      cases hx : a.key? with
      | none => simp
      | some k0 =>
        simp only [alGet_alErase]
        by_cases hkk : k0 = k <;> simp [hkk]
    rw [key]
    constructor
    · intro hg
      by_cases hak : a.key? = some k
      · simp [hak] at hg
      · simp only [hak, if_false] at hg
        obtain ⟨i, c, hi, hc, hie⟩ := (h.emap_iff k e).mp hg
        rw [he] at hi
        cases i with
        | zero => simp at hi; subst hi; exact absurd hc hak
        | succ i =>
          have hil : i < rest.length := by
            have := (List.getElem?_eq_some_iff.mp hi).1
            simpa using this
          refine ⟨i, c, by simpa using hi, hc, ?_⟩
          subst hie
          simp only [M64] at *
          omega
    · rintro ⟨i, c, hi, hc, hie⟩
      have hil : i < rest.length := (List.getElem?_eq_some_iff.mp hi).1
      have hi' : q.events[i + 1]? = some c := by rw [he]; simpa using hi
      have hak : ¬ a.key? = some k := by
        intro hak
        have := idx_unique q.events 0 (i + 1) a c k h.nodup (by rw [he]; simp) hi' hak hc
        omega
      simp only [hak, if_false]
      rw [h.emap_iff k e]
      refine ⟨i + 1, c, hi', hc, ?_⟩
      subst hie
      simp only [M64] at *
      omega

end SwimVerif.ML
