import SwimVerif.Proofs.NoFab

set_option linter.unusedSimpArgs false
set_option linter.unusedVariables false
namespace SwimVerif.WT

/-! ### Exact flow of bodies through one lane's buffers (used by C01, C02, C14) -/

/-- How the bodies of lane `l` carried by a write `w` relate to the lane's three buffers before (`u`) and after
(`u'`) the operation that produced it: each buffer hands over a prefix of its content. -/
structure Split (l : Nat) (u u' : Uplinks) (w : Option Write) : Prop where
  ex : ∃ wv ws wm, writeBodies l w = wv ++ ws ++ wm ∧
    wv ++ bufValue u' l = bufValue u l ∧ ws ++ bufSupply u' l = bufSupply u l ∧ wm ++ bufMap u' l = bufMap u l

theorem split_refl (l : Nat) (u : Uplinks) : Split l u u none :=
  ⟨[], [], [], by simp [writeBodies], by simp, by simp, by simp⟩

theorem split_same {l : Nat} {u u' : Uplinks} {w : Option Write} (hw : writeBodies l w = [])
    (hv : bufValue u' l = bufValue u l) (hs : bufSupply u' l = bufSupply u l) (hm : bufMap u' l = bufMap u l) :
    Split l u u' w :=
  ⟨[], [], [], by simp [hw], by simp [hv], by simp [hs], by simp [hm]⟩

theorem bufValue_congr {u u' : Uplinks} (h : u'.value = u.value) (l : Nat) : bufValue u' l = bufValue u l := by
  simp [bufValue, h]
theorem bufSupply_congr {u u' : Uplinks} (h : u'.supply = u.supply) (l : Nat) : bufSupply u' l = bufSupply u l := by
  simp [bufSupply, h]
theorem bufMap_congr {u u' : Uplinks} (h : u'.map = u.map) (l : Nat) : bufMap u' l = bufMap u l := by
  simp [bufMap, h]

theorem bufValue_set_ne (u : Uplinks) (l0 l : Nat) (x : Uplink ValueBp) (h : l0 ≠ l) :
    bufValue { u with value := alSet u.value l0 x } l = bufValue u l := by
  simp [bufValue, alGet_alSet_ne _ _ h]
theorem bufSupply_set_ne (u : Uplinks) (l0 l : Nat) (x : Uplink (List Bytes)) (h : l0 ≠ l) :
    bufSupply { u with supply := alSet u.supply l0 x } l = bufSupply u l := by
  simp [bufSupply, alGet_alSet_ne _ _ h]
theorem bufMap_set_ne (u : Uplinks) (l0 l : Nat) (x : Uplink (List MapOp)) (h : l0 ≠ l) :
    bufMap { u with map := alSet u.map l0 x } l = bufMap u l := by
  simp [bufMap, alGet_alSet_ne _ _ h]

theorem split_popEntry (u : Uplinks) (k : Kind) (l0 : Nat) (reg : Registry) (l : Nat) :
    Split l u (u.popEntry k l0 reg).1 (u.popEntry k l0 reg).2 := by
  cases k with
  | value =>
    simp only [Uplinks.popEntry]
    cases hg : alGet u.value l0 with
    | none => exact split_refl l u
    | some up =>
      simp only []
      by_cases hl : l0 = l
      · subst hl
        refine ⟨bufValue u l0, [], [], ?_, ?_, ?_, ?_⟩
        · simp only [List.append_nil]
          simp only [bufValue, hg]
          cases hp : up.bp.pending <;> cases hs : up.sendSynced <;>
            simp [writeBodies, bodiesFor_tag, noteBody?]
        · simp [bufValue]
        · simp [bufSupply]
        · simp [bufMap]
      · apply split_same
        · cases hp : up.bp.pending <;> cases hs : up.sendSynced <;>
            simp [writeBodies, bodiesFor_tag, noteBody?, hl]
        · exact bufValue_set_ne u l0 l _ hl
        · rfl
        · rfl
  | supply =>
    simp only [Uplinks.popEntry]
    cases hg : alGet u.supply l0 with
    | none => exact split_refl l u
    | some up =>
      simp only []
      by_cases hl : l0 = l
      · subst hl
        refine ⟨[], (bufSupply u l0).take 1, [], ?_, ?_, ?_, ?_⟩
        · simp only [List.nil_append, List.append_nil, bufSupply, hg]
          cases hb : up.bp with
          | nil => cases hs : up.sendSynced <;> simp [writeBodies, bodiesFor_tag, noteBody?]
          | cons x xs => cases hs : up.sendSynced <;> simp [writeBodies, bodiesFor_tag, noteBody?]
        · simp [bufValue]
        · simp only [bufSupply, hg, alGet_alSet_same]
          cases hb : up.bp with
          | nil => simp
          | cons x xs => simp
        · simp [bufMap]
      · apply split_same
        · cases hb : up.bp with
          | nil => cases hs : up.sendSynced <;> simp [writeBodies, bodiesFor_tag, noteBody?, hl]
          | cons x xs => cases hs : up.sendSynced <;> simp [writeBodies, bodiesFor_tag, noteBody?, hl]
        · rfl
        · simp [bufSupply, alGet_alSet_ne _ _ hl]
        · rfl
  | map =>
    simp only [Uplinks.popEntry]
    cases hg : alGet u.map l0 with
    | none => exact split_refl l u
    | some up =>
      simp only []
      by_cases hl : l0 = l
      · subst hl
        by_cases hs : up.sendSynced = true
        · rw [if_pos hs]
          refine ⟨[], [], bufMap u l0, ?_, ?_, ?_, ?_⟩
          · simp only [List.nil_append, bufMap, hg, writeBodies, bodiesFor_tag, if_true, List.filterMap_append,
              List.filterMap_map]
            simp [noteBody?, Function.comp_def]
          · simp [bufValue]
          · simp [bufSupply]
          · simp [bufMap]
        · rw [if_neg hs]
          cases hb : up.bp with
          | nil =>
            simp only []
            apply split_same
            · simp [writeBodies]
            · rfl
            · rfl
            · simp [bufMap, hg, hb]
          | cons op rest =>
            simp only []
            refine ⟨[], [], [.map op], ?_, ?_, ?_, ?_⟩
            · simp [writeBodies, bodiesFor_tag, noteBody?]
            · simp [bufValue]
            · simp [bufSupply]
            · simp [bufMap, hg, hb]
      · by_cases hs : up.sendSynced = true
        · rw [if_pos hs]
          apply split_same
          · simp [writeBodies, bodiesFor_tag, hl]
          · rfl
          · rfl
          · simp [bufMap, alGet_alSet_ne _ _ hl]
        · rw [if_neg hs]
          cases hb : up.bp with
          | nil =>
            simp only []
            apply split_same
            · simp [writeBodies]
            · rfl
            · rfl
            · simp [bufMap, alGet_alSet_ne _ _ hl]
          | cons op rest =>
            simp only []
            apply split_same
            · simp [writeBodies, bodiesFor_tag, hl]
            · rfl
            · rfl
            · simp [bufMap, alGet_alSet_ne _ _ hl]

theorem split_none_bufs {l : Nat} {u u' : Uplinks} (h : Split l u u' none) :
    bufValue u' l = bufValue u l ∧ bufSupply u' l = bufSupply u l ∧ bufMap u' l = bufMap u l := by
  obtain ⟨wv, ws, wm, hw, hv, hs, hm⟩ := h.ex
  simp only [writeBodies] at hw
  have h0 : wv = [] ∧ ws = [] ∧ wm = [] := by
    have := hw.symm
    simp only [List.append_eq_nil_iff] at this
    exact ⟨this.1.1, this.1.2, this.2⟩
  obtain ⟨rfl, rfl, rfl⟩ := h0
  exact ⟨by simpa using hv, by simpa using hs, by simpa using hm⟩

theorem split_trans_none {l : Nat} {u u1 u2 : Uplinks} {w : Option Write}
    (h1 : Split l u u1 none) (h2 : Split l u1 u2 w) : Split l u u2 w := by
  obtain ⟨e1, e2, e3⟩ := split_none_bufs h1
  obtain ⟨wv, ws, wm, hw, hv, hs, hm⟩ := h2.ex
  exact ⟨wv, ws, wm, hw, by rw [hv, e1], by rw [hs, e2], by rw [hm, e3]⟩

theorem split_popLoop (reg : Registry) (l : Nat) : ∀ (fuel : Nat) (u : Uplinks),
    Split l u (u.popLoop reg fuel).1 (u.popLoop reg fuel).2 := by
  intro fuel
  induction fuel with
  | zero => intro u; exact split_same (by simp [Uplinks.popLoop, writeBodies]) rfl rfl rfl
  | succ fuel ih =>
    intro u
    unfold Uplinks.popLoop
    cases hq : u.writeQueue with
    | nil => exact split_same (by simp [writeBodies]) rfl rfl rfl
    | cons e rest =>
      obtain ⟨k0, l0⟩ := e
      simp only []
      have hp := split_popEntry { u with writeQueue := rest } k0 l0 reg l
      have hp' : Split l u (Uplinks.popEntry { u with writeQueue := rest } k0 l0 reg).1
          (Uplinks.popEntry { u with writeQueue := rest } k0 l0 reg).2 := ⟨hp.ex⟩
      cases hr : (Uplinks.popEntry { u with writeQueue := rest } k0 l0 reg).2 with
      | some w => simp only []; rw [hr] at hp'; exact hp'
      | none =>
        simp only []
        rw [hr] at hp'
        exact split_trans_none hp' (ih _)

theorem split_replaceAndPop (u : Uplinks) (reg : Registry) (l : Nat) :
    Split l u (u.replaceAndPop reg).1 (u.replaceAndPop reg).2 := by
  unfold Uplinks.replaceAndPop
  cases hs : u.specialQueue with
  | cons sp rest =>
    simp only []
    exact split_same (specialWrite_bodies reg sp l) rfl rfl rfl
  | nil =>
    simp only []
    exact split_popLoop reg l _ u

/-- `push_special` leaves the buffers of every lane alone, except that a queued `unlinked l0` empties lane `l0`. -/
theorem bufs_pushSpecial (u : Uplinks) (a : Special) (reg : Registry) (l : Nat)
    (h : ∀ m, a ≠ .unlinked l m) :
    bufValue (u.pushSpecial a reg).1 l = bufValue u l ∧ bufSupply (u.pushSpecial a reg).1 l = bufSupply u l ∧
    bufMap (u.pushSpecial a reg).1 l = bufMap u l := by
  unfold Uplinks.pushSpecial
  split
  · exact ⟨rfl, rfl, rfl⟩
  · cases a with
    | linked id => exact ⟨rfl, rfl, rfl⟩
    | laneNotFound n => exact ⟨rfl, rfl, rfl⟩
    | unlinked id m =>
      have hid : id ≠ l := fun hh => h m (by rw [hh])
      simp [bufValue, bufSupply, bufMap, alGet_alErase, hid]

/-- Exact effect of `push` on lane `l`. -/
theorem push_other (u : Uplinks) (lane : Nat) (ev : Resp) (reg : Registry) (l : Nat) (h : lane ≠ l) :
    bufValue (u.push lane ev reg).1 l = bufValue u l ∧ bufSupply (u.push lane ev reg).1 l = bufSupply u l ∧
    bufMap (u.push lane ev reg).1 l = bufMap u l ∧ writeBodies l (u.push lane ev reg).2 = [] := by
  unfold Uplinks.push
  split
  · refine ⟨rfl, rfl, rfl, ?_⟩
    rw [directNotes_bodies]; simp [h]
  · cases ev with
    | value b => simp [bufValue, bufSupply, bufMap, alGet_alSet_ne _ _ h, writeBodies]
    | supply b => simp [bufValue, bufSupply, bufMap, alGet_alSet_ne _ _ h, writeBodies]
    | map op => simp [bufValue, bufSupply, bufMap, alGet_alSet_ne _ _ h, writeBodies]
    | synced k => cases k <;> simp [bufValue, bufSupply, bufMap, alGet_alSet_ne _ _ h, writeBodies]

theorem push_home (u : Uplinks) (lane : Nat) (ev : Resp) (reg : Registry) (l : Nat) (hh : u.writerHome = true) :
    bufValue (u.push lane ev reg).1 l = bufValue u l ∧ bufSupply (u.push lane ev reg).1 l = bufSupply u l ∧
    bufMap (u.push lane ev reg).1 l = bufMap u l ∧
    writeBodies l (u.push lane ev reg).2 = if lane = l then (respBody? ev).toList else [] := by
  unfold Uplinks.push
  rw [if_pos hh]
  exact ⟨rfl, rfl, rfl, directNotes_bodies lane l ev _⟩

theorem push_away_supply (u : Uplinks) (l : Nat) (b : Bytes) (reg : Registry) (hh : u.writerHome = false) :
    bufValue (u.push l (.supply b) reg).1 l = bufValue u l ∧
    bufSupply (u.push l (.supply b) reg).1 l = bufSupply u l ++ [.raw b] ∧
    bufMap (u.push l (.supply b) reg).1 l = bufMap u l ∧ writeBodies l (u.push l (.supply b) reg).2 = [] := by
  unfold Uplinks.push
  rw [if_neg (by simp [hh])]
  refine ⟨rfl, ?_, rfl, by simp [writeBodies]⟩
  simp only [bufSupply, alGet_alSet_same]
  cases alGet u.supply l <;> simp

theorem push_away_value (u : Uplinks) (l : Nat) (b : Bytes) (reg : Registry) (hh : u.writerHome = false) :
    bufValue (u.push l (.value b) reg).1 l = [.raw b] ∧
    bufSupply (u.push l (.value b) reg).1 l = bufSupply u l ∧
    bufMap (u.push l (.value b) reg).1 l = bufMap u l ∧ writeBodies l (u.push l (.value b) reg).2 = [] := by
  unfold Uplinks.push
  rw [if_neg (by simp [hh])]
  refine ⟨?_, rfl, rfl, by simp [writeBodies]⟩
  simp [bufValue]

theorem push_away_synced (u : Uplinks) (l : Nat) (k : Kind) (reg : Registry) (hh : u.writerHome = false) :
    bufValue (u.push l (.synced k) reg).1 l = bufValue u l ∧
    bufSupply (u.push l (.synced k) reg).1 l = bufSupply u l ∧
    bufMap (u.push l (.synced k) reg).1 l = bufMap u l ∧ writeBodies l (u.push l (.synced k) reg).2 = [] := by
  unfold Uplinks.push
  rw [if_neg (by simp [hh])]
  cases k with
  | value =>
    refine ⟨?_, rfl, rfl, by simp [writeBodies]⟩
    simp only [bufValue, alGet_alSet_same]
    cases alGet u.value l <;> simp
  | supply =>
    refine ⟨rfl, ?_, rfl, by simp [writeBodies]⟩
    simp only [bufSupply, alGet_alSet_same]
    cases alGet u.supply l <;> simp
  | map =>
    refine ⟨rfl, rfl, ?_, by simp [writeBodies]⟩
    simp only [bufMap, alGet_alSet_same]
    cases alGet u.map l <;> simp

/-- An idle writer means every buffer is empty (from the queue discipline). -/
theorem bufs_empty_of_home {s : USys} (h : UInv s) (hh : s.up.writerHome = true) (l : Nat) :
    bufValue s.up l = [] ∧ bufSupply s.up l = [] ∧ bufMap s.up l = [] := by
  obtain ⟨hs, hq⟩ := h.q.home hh
  refine ⟨?_, ?_, ?_⟩
  · unfold bufValue
    cases hg : alGet s.up.value l with
    | none => rfl
    | some up =>
      simp only []
      cases hp : up.bp.pending with
      | false => simp
      | true =>
        have h1 := (h.q.value l up hg).1 (Or.inl hp)
        have h2 := (h.q.value l up hg).2 h1
        rw [hq] at h2; simp at h2
  · unfold bufSupply
    cases hg : alGet s.up.supply l with
    | none => rfl
    | some up =>
      simp only []
      cases hb : up.bp with
      | nil => rfl
      | cons x xs =>
        have h1 := (h.q.supply l up hg).1 (Or.inl (by rw [hb]; simp))
        have h2 := (h.q.supply l up hg).2 h1
        rw [hq] at h2; simp at h2
  · unfold bufMap
    cases hg : alGet s.up.map l with
    | none => rfl
    | some up =>
      simp only []
      cases hb : up.bp with
      | nil => rfl
      | cons x xs =>
        have h1 := (h.q.map l up hg).1 (Or.inl (by rw [hb]; simp))
        have h2 := (h.q.map l up hg).2 h1
        rw [hq] at h2; simp at h2

end SwimVerif.WT
