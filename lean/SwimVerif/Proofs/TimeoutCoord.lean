import SwimVerif.Model.TimeoutCoord

set_option linter.unusedSimpArgs false
set_option linter.unusedVariables false
namespace SwimVerif.Coord

/-! ### Bit-level facts about the masks -/

theorem testBit_allMask (n j : Nat) : (allMask n).testBit j = decide (j < n) := by
  simp [allMask, Nat.testBit_two_pow_sub_one]

theorem testBit_flagOf (i j : Nat) : (flagOf i).testBit j = decide (i = j) := by
  simp [flagOf, Nat.testBit_two_pow]

theorem testBit_notU8 (x j : Nat) : (notU8 x).testBit j = (decide (j < 8) ^^ x.testBit j) := by
  have h : (2 ^ 8 - 1 : Nat).testBit j = decide (j < 8) := Nat.testBit_two_pow_sub_one 8 j
  unfold notU8
  rw [Nat.testBit_xor, h]

theorem inverse_or_flag (n i : Nat) (h : i < n) : inverseOf n i ||| flagOf i = allMask n := by
  apply Nat.eq_of_testBit_eq
  intro j
  simp only [inverseOf, Nat.testBit_or, Nat.testBit_xor, testBit_allMask, testBit_flagOf]
  by_cases hj : i = j <;> simp [hj] <;> omega

/-- The two-party fast path is taken exactly when there are two parties. -/
theorem two_party_table : ∀ n, n < 9 → ∀ i, i < 9 → 2 ≤ n → i < n →
    (inverseOf n i < Generated.twoVotersLim ↔ n = 2) := by
  decide

theorem two_party_iff (n i : Nat) (h2 : 2 ≤ n) (h8 : n ≤ 8) (hi : i < n) :
    inverseOf n i < Generated.twoVotersLim ↔ n = 2 :=
  two_party_table n (by omega) i (by omega) h2 hi

structure Inv (s : St) : Prop where
  n2 : 2 ≤ s.n
  n8 : s.n ≤ 8
  len : s.voters.length = s.n
  bits : ∀ j, s.flags.testBit j = (decide (j < s.n) && votedAt s j)
  pcs : ∀ (i : Nat) (v : Voter), s.voters[i]? = some v →
    (v.pc = .dead → v.voted = true) ∧ (∀ c, v.pc = .loaded c → v.voted = true ∧ c ≠ allMask s.n)

/-- The invariant only reads `n`, `flags` and `voters`. -/
theorem inv_congr {s s' : St} (h : Inv s) (hn : s'.n = s.n) (hf : s'.flags = s.flags) (hv : s'.voters = s.voters) :
    Inv s' := by
  have hva : ∀ j, votedAt s' j = votedAt s j := by intro j; simp only [votedAt, hv]
  refine ⟨by rw [hn]; exact h.n2, by rw [hn]; exact h.n8, by rw [hv, hn]; exact h.len, ?_, ?_⟩
  · intro j; rw [hf, hn, hva]; exact h.bits j
  · intro i v hiv; rw [hv] at hiv; rw [hn]; exact h.pcs i v hiv

theorem votedAt_replicate (n j : Nat) : votedAt (init n) j = false := by
  simp only [votedAt, init, List.getElem?_replicate]
  by_cases h : j < n <;> simp [h]

theorem inv_init (n : Nat) (h2 : 2 ≤ n) (h8 : n ≤ 8) : Inv (init n) := by
  refine ⟨h2, h8, by simp [init], ?_, ?_⟩
  · intro j; rw [votedAt_replicate]; simp [init, Generated.coordInit]
  · intro i v hv
    simp only [init, List.getElem?_replicate] at hv
    by_cases h : i < n <;> simp [h] at hv
    subst hv; simp

theorem flags_all_iff {s : St} (h : Inv s) : s.flags = allMask s.n ↔ ∀ i, i < s.n → votedAt s i = true := by
  constructor
  · intro hf i hi
    have := h.bits i
    rw [hf, testBit_allMask] at this
    simpa [hi] using this.symm
  · intro hv
    apply Nat.eq_of_testBit_eq
    intro j
    rw [h.bits j, testBit_allMask]
    by_cases hj : j < s.n <;> simp [hj, hv]

/-! ### `setVoter` -/

@[simp] theorem setVoter_n (s : St) (i : Nat) (v : Voter) : (setVoter s i v).n = s.n := rfl
@[simp] theorem setVoter_flags (s : St) (i : Nat) (v : Voter) : (setVoter s i v).flags = s.flags := rfl
@[simp] theorem setVoter_len (s : St) (i : Nat) (v : Voter) :
    (setVoter s i v).voters.length = s.voters.length := by simp [setVoter]

theorem setVoter_get (s : St) (i j : Nat) (v : Voter) :
    (setVoter s i v).voters[j]? = if i = j ∧ i < s.voters.length then some v else s.voters[j]? := by
  simp only [setVoter, List.getElem?_set]
  by_cases h : i = j
  · subst h; by_cases h2 : i < s.voters.length <;> simp [h2]
  · simp [h]

theorem votedAt_setVoter (s : St) (i j : Nat) (v : Voter) :
    votedAt (setVoter s i v) j = if i = j ∧ i < s.voters.length then v.voted else votedAt s j := by
  simp only [votedAt, setVoter_get]
  by_cases h : i = j ∧ i < s.voters.length
  · rw [if_pos h, if_pos h]
  · rw [if_neg h, if_neg h]

theorem votedAt_flags (s : St) (f : Nat) (j : Nat) : votedAt { s with flags := f } j = votedAt s j := rfl
theorem votedAt_woken (s : St) (b : Bool) (j : Nat) : votedAt { s with woken := b } j = votedAt s j := rfl

theorem lt_of_get {s : St} {i : Nat} {v : Voter} (h : s.voters[i]? = some v) : i < s.voters.length := by
  have := List.getElem?_eq_some_iff.mp h
  exact this.1

theorem votedAt_of_get {s : St} {i : Nat} {v : Voter} (h : s.voters[i]? = some v) : votedAt s i = v.voted := by
  simp [votedAt, h]

/-- Generic preservation: replace voter `i` and the flags, given the bit/flag agreement for the new state. -/
theorem inv_update {s : St} (h : Inv s) {i : Nat} {v : Voter} (hv : s.voters[i]? = some v)
    (f : Nat) (w : Bool) (v' : Voter)
    (hb : ∀ j, f.testBit j = (decide (j < s.n) && (if i = j then v'.voted else votedAt s j)))
    (hd : v'.pc = .dead → v'.voted = true)
    (hl : ∀ c, v'.pc = .loaded c → v'.voted = true ∧ c ≠ allMask s.n) :
    Inv (setVoter { s with flags := f, woken := w } i v') := by
  have hi : i < s.voters.length := lt_of_get hv
  refine ⟨h.n2, h.n8, by simpa using h.len, ?_, ?_⟩
  · intro j
    rw [votedAt_setVoter]
    simp only [setVoter_flags, setVoter_n]
    rw [hb j]
    by_cases hij : i = j
    · subst hij; simp [hi]; rfl
    · simp [hij]
      rfl
  · intro k u hu
    rw [setVoter_get] at hu
    by_cases hik : i = k ∧ i < s.voters.length
    · rw [if_pos hik] at hu
      have : v' = u := by simpa using hu
      subst this; exact ⟨hd, hl⟩
    · rw [if_neg hik] at hu; exact h.pcs k u hu

theorem bits_same {s : St} {i : Nat} {v : Voter} (h : Inv s) (hv : s.voters[i]? = some v) (b : Bool)
    (hbv : b = v.voted) :
    ∀ j, s.flags.testBit j = (decide (j < s.n) && (if i = j then b else votedAt s j)) := by
  intro j
  rw [h.bits j]
  by_cases hij : i = j
  · subst hij; simp [votedAt_of_get hv, hbv]
  · simp [hij]

theorem inv_doVote {s : St} (h : Inv s) {i : Nat} {v : Voter} (hv : s.voters[i]? = some v) (pc : PC)
    (hpc : pc = .idle ∨ pc = .dead) : Inv (doVote s i v pc).1 := by
  have hi : i < s.n := h.len ▸ lt_of_get hv
  have key : Inv (setVoter { s with flags := s.flags ||| flagOf i } i { voted := true, pc := pc }) := by
    apply inv_update h hv (s.flags ||| flagOf i) s.woken { voted := true, pc := pc }
    · intro j
      rw [Nat.testBit_or, h.bits j, testBit_flagOf]
      by_cases hij : i = j
      · subst hij; simp [hi]
      · simp [hij]
    · intro _; rfl
    · intro c hc; rcases hpc with h1 | h1 <;> simp [h1] at hc
  unfold doVote
  simp only []
  split
  · obtain ⟨a, b, c, d, e⟩ := key
    exact ⟨a, b, c, d, e⟩
  · exact key

/-! ### `doVote` -/

@[simp] theorem doVote_flags (s : St) (i : Nat) (v : Voter) (pc : PC) :
    (doVote s i v pc).1.flags = s.flags ||| flagOf i := by
  unfold doVote; simp only []; split <;> rfl
@[simp] theorem doVote_n (s : St) (i : Nat) (v : Voter) (pc : PC) : (doVote s i v pc).1.n = s.n := by
  unfold doVote; simp only []; split <;> rfl
@[simp] theorem doVote_voters (s : St) (i : Nat) (v : Voter) (pc : PC) :
    (doVote s i v pc).1.voters = s.voters.set i { voted := true, pc := pc } := by
  unfold doVote; simp only []; split <;> rfl
theorem doVote_res (s : St) (i : Nat) (v : Voter) (pc : PC) :
    (doVote s i v pc).2 = if s.flags = inverseOf s.n i then .unanimous else .pending := by
  unfold doVote; simp only []; split <;> rfl
theorem doVote_woken (s : St) (i : Nat) (v : Voter) (pc : PC) (h : s.flags = inverseOf s.n i) :
    (doVote s i v pc).1.woken = true := by
  unfold doVote; simp only []; rw [if_pos h]
theorem doVote_get (s : St) (i j : Nat) (v : Voter) (pc : PC) :
    (doVote s i v pc).1.voters[j]? =
      if i = j ∧ i < s.voters.length then some { voted := true, pc := pc } else s.voters[j]? := by
  rw [doVote_voters]; exact setVoter_get s i j _
theorem votedAt_doVote (s : St) (i j : Nat) (v : Voter) (pc : PC) :
    votedAt (doVote s i v pc).1 j = if i = j ∧ i < s.voters.length then true else votedAt s j := by
  simp only [votedAt, doVote_get]
  by_cases h : i = j ∧ i < s.voters.length
  · rw [if_pos h, if_pos h]
  · rw [if_neg h, if_neg h]

theorem n_stepAct (s : St) (i : Nat) (a : Act) : (stepAct s i a).1.n = s.n := by
  fun_cases stepAct s i a <;> simp

theorem inv_stepAct {s : St} (h : Inv s) (i : Nat) (a : Act) : Inv (stepAct s i a).1 := by
  fun_cases stepAct s i a
  case case1 => exact h
  case case2 v hv hpc => exact inv_doVote h hv _ (Or.inl rfl)
  case case3 v hv hpc hvd h2 hf =>
    have hi : i < s.n := h.len ▸ lt_of_get hv
    apply inv_update h hv Generated.coordInit s.woken { v with voted := false }
    · intro j
      have hb := h.bits j
      rw [hf, testBit_flagOf] at hb
      by_cases hij : i = j
      · subst hij; simp [Generated.coordInit]
      · simp [hij] at hb ⊢
        simp [Generated.coordInit]
        by_cases hj : j < s.n
        · simp_all
        · intro hj'; omega
    · intro hd; simp [hpc] at hd
    · intro c hc; simp [hpc] at hc
  case case4 => exact h
  case case5 => exact h
  case case6 v hv hpc hvd h2 hf =>
    have hi : i < s.n := h.len ▸ lt_of_get hv
    apply inv_update h hv s.flags s.woken { v with pc := .loaded s.flags }
    · exact bits_same h hv _ rfl
    · intro hd; simp at hd
    · intro c hc
      simp at hc; subst hc
      refine ⟨hvd, ?_⟩
      rw [← inverse_or_flag s.n i hi]; exact hf
  case case7 => exact h
  case case8 v hv hpc =>
    have hi : i < s.n := h.len ▸ lt_of_get hv
    apply inv_update h hv (s.flags &&& notU8 (flagOf i)) s.woken { voted := false, pc := .idle }
    · intro j
      rw [Nat.testBit_and, testBit_notU8, testBit_flagOf, h.bits j]
      by_cases hij : i = j
      · subst hij
        have : i < 8 := by have := h.n8; omega
        simp [this]
      · simp [hij]
        by_cases hj : j < s.n
        · have : j < 8 := by have := h.n8; omega
          simp [hj, this]
        · simp [hj]
    · intro hd; simp at hd
    · intro c hc; simp at hc
  case case9 v hv c hpc hne hf =>
    apply inv_update h hv s.flags s.woken { v with pc := .idle }
    · exact bits_same h hv _ rfl
    · intro hd; simp at hd
    · intro c hc; simp at hc
  case case10 v hv c hpc hne hf =>
    have hi : i < s.n := h.len ▸ lt_of_get hv
    apply inv_update h hv s.flags s.woken { v with pc := .loaded s.flags }
    · exact bits_same h hv _ rfl
    · intro hd; simp at hd
    · intro c' hc
      simp at hc; subst hc
      refine ⟨((h.pcs i v hv).2 c hpc).1, ?_⟩
      rw [← inverse_or_flag s.n i hi]; exact hf
  case case11 v hv hpc hvd =>
    apply inv_update h hv s.flags s.woken { v with pc := .dead }
    · exact bits_same h hv _ rfl
    · intro _; exact hvd
    · intro c hc; simp at hc
  case case12 v hv hpc hvd => exact inv_doVote h hv _ (Or.inr rfl)
  case case13 => exact h

@[simp] theorem step_poll_n (s : St) : (step s .poll).1.n = s.n := by simp only [step]; split <;> rfl
@[simp] theorem step_poll_flags (s : St) : (step s .poll).1.flags = s.flags := by simp only [step]; split <;> rfl
@[simp] theorem step_poll_voters (s : St) : (step s .poll).1.voters = s.voters := by simp only [step]; split <;> rfl
@[simp] theorem votedAt_step_poll (s : St) (j : Nat) : votedAt (step s .poll).1 j = votedAt s j := by
  simp only [votedAt, step_poll_voters]

theorem inv_step {s : St} (h : Inv s) (e : Ev) : Inv (step s e).1 := by
  cases e with
  | act i a => exact inv_stepAct h i a
  | poll =>
    simp only [step]
    split
    · exact h
    · exact inv_congr h rfl rfl rfl

theorem inv_run {s : St} (h : Inv s) (evs : List Ev) : Inv (run s evs) := by
  induction evs generalizing s with
  | nil => exact h
  | cons e evs ih => exact ih (inv_step h e)

end SwimVerif.Coord
