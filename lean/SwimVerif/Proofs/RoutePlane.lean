/-
C18: the route table of a plane. Every `RoutePattern` value is produced by `RoutePattern::parse` (the struct has
private fields and no other constructor), so the table handed to `PlaneBuilder::build` is a list of parsed patterns.
-/
import SwimVerif.Proofs.RouteImage

set_option linter.unusedSimpArgs false
set_option linter.unusedVariables false
namespace SwimVerif.Route

/-- The table registered with `PlaneBuilder::add_route`: every entry is a result of `RoutePattern::parse`. -/
def Registered (ps : List Pat) : Prop := ∀ p ∈ ps, ∃ s, parsePattern s = .ok p

/-- `texts.iter().map(RoutePattern::parse_str).collect::<Result<Vec<_>, _>>().ok()`. -/
def parseAll : List Bytes → Option (List Pat)
  | [] => some []
  | s :: rest =>
    match parsePattern s, parseAll rest with
    | .ok p, some ps => some (p :: ps)
    | _, _ => none

theorem parseAll_registered (texts : List Bytes) (ps : List Pat) (h : parseAll texts = some ps) : Registered ps := by
  induction texts generalizing ps with
  | nil => simp [parseAll] at h; subst h; intro p hp; simp at hp
  | cons s rest ih =>
    simp only [parseAll] at h
    split at h
    · rename_i p ps' hp hps
      simp only [Option.some.injEq] at h
      subst h
      intro q hq
      simp only [List.mem_cons] at hq
      rcases hq with rfl | hq
      · exact ⟨s, hp⟩
      · exact ih ps' hps q hq
    · simp at h

theorem registered_litNonempty (ps : List Pat) (h : Registered ps) :
    ∀ p ∈ ps, ∀ s ∈ p.segs, s.litNonempty = true := by
  intro p hp s hs
  obtain ⟨t, ht⟩ := h p hp
  have hso := parsePattern_structOk t p ht
  simp only [Pat.structOk, Bool.and_eq_true, List.all_eq_true] at hso
  have := hso.1.1.1 s hs
  cases s <;> simp_all [Seg.structOk, Seg.litNonempty]

/-- At most one entry of an accepted table matches a given `(scheme, path)`. -/
theorem count_matches_le_one (ps : List Pat) (hb : buildOk ps = true)
    (hwf : ∀ p ∈ ps, ∀ s ∈ p.segs, s.litNonempty = true) (sch : Option Bytes) (path : Bytes) :
    ps.countP (fun p => (p.unapplyUri sch path).isSome) ≤ 1 := by
  induction ps with
  | nil => simp
  | cons p rest ih =>
    simp only [buildOk, Bool.and_eq_true, List.all_eq_true, Bool.not_eq_eq_eq_not, Bool.not_true] at hb
    have ih' := ih hb.2 (fun q hq => hwf q (by simp [hq]))
    rw [List.countP_cons]
    cases hm : p.unapplyUri sch path with
    | none => simpa using ih'
    | some r1 =>
      have hz : rest.countP (fun p => (p.unapplyUri sch path).isSome) = 0 := by
        rw [List.countP_eq_zero]
        intro q hq hqm
        cases hq2 : q.unapplyUri sch path with
        | none => simp [hq2] at hqm
        | some r2 =>
          have := areAmbiguous_complete p q sch path r1 r2 (hwf p (by simp)) (hwf q (by simp [hq])) hm hq2
          rw [hb.1 q hq] at this
          simp at this
      simp [hz]

theorem count_matches_str_le_one (ps : List Pat) (hb : buildOk ps = true)
    (hwf : ∀ p ∈ ps, ∀ s ∈ p.segs, s.litNonempty = true) (route : Bytes) :
    ps.countP (fun p => (p.unapplyStr route).isSome) ≤ 1 := by
  cases hu : parseUri route with
  | none =>
    have : ps.countP (fun p => (p.unapplyStr route).isSome) = 0 := by
      rw [List.countP_eq_zero]
      intro q _
      simp [Pat.unapplyStr, hu]
    omega
  | some u =>
    have := count_matches_le_one ps hb hwf u.scheme u.path
    simpa [Pat.unapplyStr, hu] using this

end SwimVerif.Route
