/-
C11 (multiplexer part), fairness: the rank of a ready stream (`Proofs/MultiReaderRank.lean`) never grows inside
`get_next_stream` and drops with every item `poll_next` delivers from another stream; hence a ready stream is
delivered after at most `rank ≤ 2 * entries.length` deliveries from other streams.
-/
import SwimVerif.Proofs.MultiReaderRank

set_option linter.unusedSimpArgs false
set_option linter.unusedVariables false
namespace SwimVerif.MultiReader

theorem fMin_le (s : List Nat) (m : Nat) (h : fMin s = some m) : ∀ j ∈ s, m ≤ j := by
  induction s generalizing m with
  | nil => simp [fMin] at h
  | cons x xs ih =>
    unfold fMin at h
    cases hm : fMin xs with
    | none =>
      have := fMin_none xs hm
      subst this
      simp [hm] at h; subst h; simp
    | some m' =>
      simp only [hm, Option.some.injEq] at h
      have := ih m' hm
      intro j hj
      rcases List.mem_cons.mp hj with rfl | hj
      · omega
      · have := this j hj; omega

theorem lt_of_getElem?_some {α : Type} (l : List α) (k : Nat) (a : α) (h : l[k]? = some a) : k < l.length := by
  rcases Nat.lt_or_ge k l.length with h' | h'
  · exact h'
  · rw [List.getElem?_eq_none_iff.mpr h'] at h; cases h

theorem getD_beyond (bs : List (List Nat)) (b : Nat) (h : bs.length ≤ b) : bs.getD b [] = [] := by
  simp [List.getD_eq_getElem?_getD, List.getElem?_eq_none_iff.mpr h]

/-! ### rank of a state -/

def wtSt (st : St) (k κ : Nat) : Nat := wt st.buckets.length st.cur st.localF st.queueF st.buckets k κ

def rank (st : St) (k : Nat) : Nat := wsum st.entries.length (wtSt st k)

theorem rank_le (st : St) (k : Nat) (hw : WF st) (hk : k < st.entries.length) :
    rank st k ≤ 2 * st.entries.length := by
  have hkB : k / 64 < st.buckets.length := by
    have := hw.cover; simp only [hB] at this; omega
  exact wsum_bound _ 2 _ (fun κ _ => wt_le_two _ _ _ _ _ _ _ hkB hw.cur_lt)

theorem wtSt_flush (st : St) (k : Nat) (hw : WF st) (hl : st.localF = []) (hkB : k / 64 < st.buckets.length)
    (κ : Nat) : wtSt (flush st) k κ ≤ wtSt st k κ := by
  unfold flush
  by_cases hq : st.queueF ≠ []
  · rw [if_pos hq]
    simp only [wtSt, List.length_modify, hl]
    apply wt_flush _ _ _ _ _ _ _ hkB hw.cur_lt
    intro b j hj
    rw [getD_modify_list] at hj
    split at hj
    · rename_i hc
      rw [mem_fUnion] at hj
      rcases hj with hj | hj
      · exact Or.inl hj
      · exact Or.inr ⟨hc.1.symm, hj⟩
    · exact Or.inl hj
  · rw [if_neg hq]; exact Nat.le_refl _

theorem wtSt_enter (st : St) (k : Nat) (hw : WF st) (hl : st.localF = []) (hq : st.queueF = [])
    (hkB : k / 64 < st.buckets.length) (hf : flagged st (k / 64) (k % 64)) (κ : Nat) :
    wtSt (enter st (nextIdx st)) k κ ≤ wtSt st k κ := by
  have hf' : k % 64 ∈ st.buckets.getD (k / 64) [] := by
    unfold flagged at hf
    rw [hl, hq] at hf
    rcases hf with h | ⟨_, h | h⟩
    · exact h
    · simp at h
    · simp at h
  simp only [wtSt, enter, List.length_set, hl, hq]
  exact wt_enter _ _ _ _ _ _ (nextIdx_spec st) hw.cur_lt hkB (fun b => getD_set_list _ _ _)
    (fun b hb => getD_beyond _ _ hb) hf' κ

theorem enter_length (st : St) (c : Nat) : (enter st c).buckets.length = st.buckets.length := by simp [enter]

theorem wtSt_advance (fuel : Nat) (st : St) (start k : Nat) (hw : WF st) (hl : st.localF = [])
    (hq : st.queueF = []) (hkB : k / 64 < st.buckets.length) (hf : flagged st (k / 64) (k % 64)) :
    (advance fuel st start).1.buckets.length = st.buckets.length ∧
    ∀ κ, wtSt (advance fuel st start).1 k κ ≤ wtSt st k κ := by
  induction fuel generalizing st with
  | zero => exact ⟨rfl, fun κ => Nat.le_refl _⟩
  | succ n ih =>
    have hc := nextIdx_lt st hw.cur_lt
    have hwf := wf_enter st (nextIdx st) hw hc
    have hbase := wtSt_enter st k hw hl hq hkB hf
    have hlen := enter_length st (nextIdx st)
    unfold advance
    by_cases h1 : (enter st (nextIdx st)).localF ≠ []
    · rw [if_pos h1]; exact ⟨hlen, hbase⟩
    · rw [if_neg h1]
      by_cases h2 : start = nextIdx st
      · rw [if_pos h2]; exact ⟨hlen, hbase⟩
      · rw [if_neg h2]
        have hl' : (enter st (nextIdx st)).localF = [] := by simpa using h1
        have r := ih (enter st (nextIdx st)) hwf hl' hq (by rw [hlen]; exact hkB)
          (flagged_enter st _ _ _ hl hq hf)
        exact ⟨by rw [r.1, hlen], fun κ => Nat.le_trans (r.2 κ) (hbase κ)⟩

theorem advance_false_loc (fuel : Nat) (st : St) (start : Nat) (hl : st.localF = [])
    (h : (advance fuel st start).2 = false) : (advance fuel st start).1.localF = [] := by
  induction fuel generalizing st with
  | zero => exact hl
  | succ n ih =>
    unfold advance at h ⊢
    by_cases h1 : (enter st (nextIdx st)).localF ≠ []
    · rw [if_pos h1] at h; cases h
    · rw [if_neg h1] at h ⊢
      have hl' : (enter st (nextIdx st)).localF = [] := by simpa using h1
      by_cases h2 : start = nextIdx st
      · rw [if_pos h2]; exact hl'
      · rw [if_neg h2] at h ⊢; exact ih _ hl' h

/-! ### `get_next_stream` = walk to a bucket with a flag, then take the minimum -/

/-- the state in which `get_next_stream` takes the minimum of the local flags -/
def preNext (st : St) : St :=
  if st.localF ≠ [] then st else (advance ((flush st).buckets.length + 1) (flush st) (flush st).cur).1

theorem popMin_nil (st : St) (h : st.localF = []) : popMin st = (st, none) := by
  unfold popMin; rw [h]; rfl

theorem getNext_eq_popMin (st : St) : getNext st = popMin (preNext st) := by
  unfold getNext preNext
  by_cases h1 : st.localF ≠ []
  · rw [if_pos h1, if_pos h1]
  · rw [if_neg h1, if_neg h1]
    have hl : (flush st).localF = [] := by rw [flush_localF]; simpa using h1
    have hfl := advance_false_loc ((flush st).buckets.length + 1) (flush st) (flush st).cur hl
    generalize (advance ((flush st).buckets.length + 1) (flush st) (flush st).cur) = r at *
    by_cases h2 : r.2 = true
    · rw [if_pos h2]
    · rw [if_neg h2, popMin_nil _ (hfl (by simpa using h2))]

theorem delivered_flush (st : St) : (flush st).delivered = st.delivered := by unfold flush; split <;> rfl

theorem delivered_advance (fuel : Nat) (st : St) (start : Nat) : (advance fuel st start).1.delivered = st.delivered := by
  have := data_advance fuel st start
  simp only [data, Data.mk.injEq] at this
  exact this.2.2

theorem preNext_spec (st : St) (k : Nat) (hw : WF st) (hkB : k / 64 < st.buckets.length)
    (hf : flagged st (k / 64) (k % 64)) :
    WF (preNext st) ∧ (preNext st).delivered = st.delivered ∧ flagged (preNext st) (k / 64) (k % 64) ∧
    ∀ κ, wtSt (preNext st) k κ ≤ wtSt st k κ := by
  unfold preNext
  by_cases h1 : st.localF ≠ []
  · rw [if_pos h1]; exact ⟨hw, rfl, hf, fun κ => Nat.le_refl _⟩
  · rw [if_neg h1]
    have hl : st.localF = [] := by simpa using h1
    obtain ⟨fw, _, _, fl, fq, fgrow⟩ := flush_spec st hw hl
    have flen : (flush st).buckets.length = st.buckets.length := by
      unfold flush; split <;> simp
    have a := advance_spec ((flush st).buckets.length + 1) (flush st) (flush st).cur fw fl fq
    have r := wtSt_advance ((flush st).buckets.length + 1) (flush st) (flush st).cur k fw fl fq
      (by rw [flen]; exact hkB) (fgrow _ _ hf)
    refine ⟨a.wf, by rw [delivered_advance, delivered_flush], a.grow _ _ (fgrow _ _ hf), ?_⟩
    intro κ
    exact Nat.le_trans (r.2 κ) (wtSt_flush st k hw hl hkB κ)

/-- one `get_next_stream` that does not return the target: whatever is then done with the returned flag (dropped or
put into the queue flags), no weight grows and the weight of the returned key drops -/
theorem getNext_rank (st : St) (k : Nat) (hw : WF st) (hkB : k / 64 < st.buckets.length)
    (hf : flagged st (k / 64) (k % 64)) (idx : Nat) (h : (getNext st).2 = some idx) :
    (getNext st).1.delivered = st.delivered ∧
    (idx + (getNext st).1.cur * 64 ≠ k →
      ∀ que', (∀ j ∈ que', j = idx ∨ j ∈ (getNext st).1.queueF) → ∀ κ,
        wt (getNext st).1.buckets.length (getNext st).1.cur (getNext st).1.localF que' (getNext st).1.buckets k κ
          ≤ wtSt st k κ ∧
        (κ = idx + (getNext st).1.cur * 64 →
          wt (getNext st).1.buckets.length (getNext st).1.cur (getNext st).1.localF que' (getNext st).1.buckets k κ
            < wtSt st k κ)) := by
  rw [getNext_eq_popMin] at h ⊢
  obtain ⟨pw, pd, pf, ple⟩ := preNext_spec st k hw hkB hf
  generalize preNext st = st' at *
  unfold popMin at h ⊢
  cases hm : fMin st'.localF with
  | none => rw [hm] at h; cases h
  | some m =>
    rw [hm] at h
    simp only [Option.some.injEq] at h
    subst h
    simp only
    refine ⟨pd, ?_⟩
    intro hne que' hq' κ
    have hmem := fMin_mem _ _ hm
    have hm64 : m < 64 := by have := pw.loc_lt m hmem; simpa [hB] using this
    have p := wt_pop st'.buckets.length st'.cur st'.localF (fErase st'.localF m) st'.queueF que' st'.buckets k m
      hmem (fMin_le _ _ hm) (by intro c; apply hne; omega) (fun j => mem_fErase _ _ _) hq' κ
    constructor
    · exact Nat.le_trans p.1 (ple κ)
    · intro e
      exact Nat.lt_of_lt_of_le (p.2 e hm64) (ple κ)

/-! ### `poll_next` -/

/-- the target stream: registered at key `k`, holds `x :: rest`, its ready bit is set -/
def Tgt (st : St) (k s x : Nat) (rest : List Nat) : Prop :=
  st.entries[k]? = some (Entry.occ s) ∧ (st.sources.getD s {}).q = x :: rest ∧ flagged st (k / 64) (k % 64)

theorem pollNext_fair (fuel : Nat) (st : St) (k s x : Nat) (rest : List Nat) (hw : WF st)
    (ht : Tgt st k s x rest) (hfuel : flagCount st + 1 ≤ fuel) (r : Nat) (hr : rank st k ≤ r) :
    (pollNext fuel st).1.delivered = st.delivered ++ [(s, x)] ∨
    (∃ s' x', s' ≠ s ∧ (pollNext fuel st).1.delivered = st.delivered ++ [(s', x')] ∧
      Tgt (pollNext fuel st).1 k s x rest ∧ rank (pollNext fuel st).1 k < r) := by
  induction fuel generalizing st with
  | zero => omega
  | succ n ih =>
    obtain ⟨hk, hq, hf⟩ := ht
    have hkL : k < st.entries.length := lt_of_getElem?_some _ _ _ hk
    have hkB : k / 64 < st.buckets.length := by
      have := hw.cover; simp only [hB] at this; omega
    unfold pollNext
    have g := getNext_spec st hw
    have gnone := getNext_none st hw
    have gcount := flagCount_getNext st
    have grank := getNext_rank st k hw hkB hf
    generalize hgs : (getNext st).1 = st1 at *
    generalize hgo : (getNext st).2 = o at *
    obtain ⟨gw, ge, gs, gsome, gnone'⟩ := g
    cases o with
    | none =>
      exfalso
      obtain ⟨h1, h2, h3⟩ := gnone rfl
      have := gnone' rfl _ _ hf
      unfold flagged at this
      rw [h1, h2, h3] at this
      simp at this
    | some idx =>
      simp only
      obtain ⟨hidx, hkeep⟩ := gsome idx rfl
      obtain ⟨gd, grk⟩ := grank idx rfl
      have hc := gcount idx rfl
      have hk1 : st1.entries[k]? = some (Entry.occ s) := by rw [ge]; exact hk
      have hq1 : (st1.sources.getD s {}).q = x :: rest := by rw [gs]; exact hq
      by_cases e : idx + st1.cur * 64 = k
      · -- the target itself is polled
        have e' : idx + st1.cur * bucketSize = k := e
        have hsl : slabGet st1 (idx + st1.cur * bucketSize) = some s := by
          rw [slabGet_some, e']; exact hk1
        rw [hsl]
        simp only
        rw [hq1]
        simp only
        left
        show st1.delivered ++ [(s, x)] = _
        rw [gd]
      · have hf1 : flagged st1 (k / 64) (k % 64) := by
          apply hkeep (k / 64) (k % 64) hf
          intro h
          simp only [Prod.mk.injEq] at h
          omega
        have hr1 : ∀ que', (∀ j ∈ que', j = idx ∨ j ∈ st1.queueF) →
            wsum st1.entries.length (wt st1.buckets.length st1.cur st1.localF que' st1.buckets k) ≤ r := by
          intro que' hq'
          rw [ge]
          exact Nat.le_trans (wsum_le _ _ _ (fun κ _ => (grk e que' hq' κ).1)) hr
        cases hsl : slabGet st1 (idx + st1.cur * bucketSize) with
        | none =>
          simp only
          have := ih st1 gw ⟨hk1, hq1, hf1⟩ (by omega) (hr1 st1.queueF (fun j hj => Or.inr hj))
          rw [gd] at this
          exact this
        | some s' =>
          simp only
          have hocc : st1.entries[idx + st1.cur * bucketSize]? = some (Entry.occ s') := (slabGet_some _ _ _).mp hsl
          have hκ0 : idx + st1.cur * 64 < st1.entries.length := lt_of_getElem?_some _ _ _ hocc
          have hss : s' ≠ s := by
            intro h
            subst h
            exact e (gw.inj _ _ _ hocc hk1)
          have hslt : s' < st1.sources.length := gw.src_lt _ _ hocc
          cases hq' : (st1.sources.getD s' {}).q with
          | cons x' rest' =>
            simp only
            right
            refine ⟨s', x', hss, ?_, ⟨hk1, ?_, ?_⟩, ?_⟩
            · show st1.delivered ++ [(s', x')] = _
              rw [gd]
            · show ((setSource st1 s' _).sources.getD s {}).q = _
              rw [source_setSource_ne st1 s' s _ hss]; exact hq1
            · unfold flagged at hf1 ⊢
              rcases hf1 with h | ⟨h1, h | h⟩
              · exact Or.inl h
              · exact Or.inr ⟨h1, Or.inl h⟩
              · exact Or.inr ⟨h1, Or.inr ((mem_fInsert _ _ _).mpr (Or.inr h))⟩
            · show wsum st1.entries.length
                (wt st1.buckets.length st1.cur st1.localF (fInsert st1.queueF idx) st1.buckets k) < r
              have hq'' : ∀ j ∈ fInsert st1.queueF idx, j = idx ∨ j ∈ st1.queueF :=
                fun j hj => (mem_fInsert _ _ _).mp hj
              rw [ge] at hκ0 ⊢
              exact Nat.lt_of_lt_of_le
                (wsum_lt _ _ _ (fun κ _ => (grk e _ hq'' κ).1) _ hκ0 ((grk e _ hq'' _).2 rfl)) hr
          | nil =>
            simp only
            have hrq := hr1 st1.queueF (fun j hj => Or.inr hj)
            by_cases hcl : (st1.sources.getD s' {}).closed = true
            · rw [if_pos hcl]
              have hk2 : (slabRemove st1 (idx + st1.cur * bucketSize)).entries[k]? = some (Entry.occ s) := by
                simp only [slabRemove, List.getElem?_set]
                have e2 : ¬ idx + st1.cur * bucketSize = k := e
                rw [if_neg e2]; exact hk1
              have := ih _ (wf_slabRemove st1 _ gw) ⟨hk2, hq1, hf1⟩ (by
                have : flagCount (slabRemove st1 (idx + st1.cur * bucketSize)) = flagCount st1 := rfl
                omega) (by
                show wsum (st1.entries.set _ _).length (wtSt st1 k) ≤ r
                rw [List.length_set]; exact hrq)
              rw [show (slabRemove st1 (idx + st1.cur * bucketSize)).delivered = st1.delivered from rfl, gd] at this
              exact this
            · rw [if_neg hcl]
              have hq2 : ((park st1 s' idx).sources.getD s {}).q = x :: rest := by
                unfold park
                rw [source_setSource_ne st1 s' s _ hss]; exact hq1
              have := ih _ (wf_park st1 s' idx gw hidx) ⟨hk1, hq2, hf1⟩ (by
                have : flagCount (park st1 s' idx) = flagCount st1 := rfl
                omega) hrq
              rw [show (park st1 s' idx).delivered = st1.delivered from rfl, gd] at this
              exact this

/-! ### a run of `poll` operations -/

theorem step_poll_fst (st : St) : (step st .poll).1 = (poll st).1 := by
  simp only [step]
  split <;> (rename_i heq; rw [heq])

theorem run_polls_succ (st : St) (n : Nat) :
    run st (List.replicate (n + 1) Op.poll) = run (poll st).1 (List.replicate n Op.poll) := by
  simp only [run, List.replicate_succ, List.foldl_cons, step_poll_fst]

/-- a ready stream is delivered after at most `r` items of other streams, `r` its rank -/
theorem fair_run (r : Nat) : ∀ (st : St) (k s x : Nat) (rest : List Nat), WF st → Ready st none →
    Tgt st k s x rest → rank st k ≤ r →
    ∃ n, n ≤ r + 1 ∧ ∃ pre, (run st (List.replicate n Op.poll)).delivered = st.delivered ++ pre ++ [(s, x)] ∧
      (∀ p ∈ pre, p.1 ≠ s) ∧ pre.length + 1 = n := by
  induction r with
  | zero =>
    intro st k s x rest hw hrd ht hr
    rcases pollNext_fair (flagCount st + 2) st k s x rest hw ht (by omega) 0 hr with h | ⟨_, _, _, _, _, h⟩
    · refine ⟨1, by omega, [], ?_, by simp, rfl⟩
      rw [run_polls_succ]
      simpa [run, poll] using h
    · omega
  | succ r ih =>
    intro st k s x rest hw hrd ht hr
    rcases pollNext_fair (flagCount st + 2) st k s x rest hw ht (by omega) (r + 1) hr with
      h | ⟨s', x', hss, hd, ht', hr'⟩
    · refine ⟨1, by omega, [], ?_, by simp, rfl⟩
      rw [run_polls_succ]
      simpa [run, poll] using h
    · have hinv := pollNext_inv (flagCount st + 2) st hw hrd
      obtain ⟨n, hn, pre, hpre, hne, hlen⟩ := ih (poll st).1 k s x rest hinv.1 hinv.2 ht' (by
        show rank (pollNext (flagCount st + 2) st).1 k ≤ r
        omega)
      refine ⟨n + 1, by omega, (s', x') :: pre, ?_, ?_, by simp; omega⟩
      · rw [run_polls_succ, hpre]
        show (pollNext (flagCount st + 2) st).1.delivered ++ pre ++ [(s, x)] = _
        rw [hd]; simp
      · intro p hp
        rcases List.mem_cons.mp hp with rfl | hp
        · exact hss
        · exact hne p hp

end SwimVerif.MultiReader
