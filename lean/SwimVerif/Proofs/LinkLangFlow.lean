/-
The per-remote link-language invariant `PInv` under `push` (lane data for a linked lane) and under the
completion of the write in flight (`replace_and_pop`) (C04).
-/
import SwimVerif.Proofs.LinkLangRemote

set_option linter.unusedSimpArgs false
set_option linter.unusedVariables false
namespace SwimVerif.WT

/-- Lane data are pushed for a lane the remote is linked to. -/
theorem pinv_push {reg : Registry} {b : Nat → Bool} {Lk : Nat → Prop} {u : Uplinks} {infl : Option Write}
    (h : PInv reg b Lk u infl) (lane : Nat) (ev : Resp) (hl : Lk lane) :
    PInv reg b Lk (u.push lane ev reg).1 (schedI (u.push lane ev reg).2 infl) := by
  have hlt := h.vl lane hl
  obtain ⟨m, hm, hmr⟩ := nameFor_lt hlt
  have hopen := h.opn lane m hm (Or.inr hl)
  cases hh : u.writerHome with
  | true =>
    have hi : infl = none := h.w.mp hh
    have hs : u.specialQueue = [] := (h.q.home hh).1
    have hq := qinv_push h.q lane ev reg
    rw [push_home_linklanguplinks u lane ev reg hh] at hq ⊢
    subst hi
    have hp0 : ∀ n, pend reg u none n = [] := by intro n; simp [pend, inflNotes, hs, spNotes]
    have hbm : b m = true := by rw [hp0] at hopen; simpa [runNotes] using hopen
    have hp1 : ∀ n, pend reg { u with writerHome := false }
        (schedI (some ⟨reg.nameFor lane, directNotes ev, some lane⟩) none) n =
        if m = n then directNotes ev else [] := by
      intro n; simp [pend, schedI, inflNotes, wNotes, hs, spNotes, hm]
    have hnd : ∀ l, hasData { u with writerHome := false } l = false := fun l => hasData_home h.q hh l
    refine ⟨hq, by simp [schedI], ?_, ?_, ?_, h.vl, ?_, ?_⟩
    · intro w hw
      simp only [schedI, Option.some.injEq] at hw
      subst hw
      exact ⟨m, hm, Or.inl hmr⟩
    · intro x hx
      have : x ∈ u.specialQueue := hx
      rw [hs] at this; simp at this
    · intro l hl'; rw [hnd] at hl'; simp at hl'
    · intro n hn
      rw [hp1]
      split
      · rename_i he; subst he
        rw [hbm, runNotes_data _ (directNotes_data ev)]; simp
      · simp [runNotes]
    · intro l n hn hd
      have hbn : b n = true := by
        have hd' : hasData u l = true ∨ Lk l := by
          rcases hd with hd | hd
          · rw [hnd] at hd; simp at hd
          · exact Or.inr hd
        have := h.opn l n hn hd'
        rw [hp0] at this; simpa [runNotes] using this
      rw [hp1]
      split
      · rw [hbn]; exact runNotes_data _ (directNotes_data ev)
      · simp [runNotes, hbn]
  | false =>
    obtain ⟨h1, h2, h3, h4⟩ := push_away u lane ev reg hh
    have hi : infl ≠ none := fun hn => by have := h.w.mpr hn; rw [hh] at this; simp at this
    rw [h1]
    have hp : ∀ n, pend reg (u.push lane ev reg).1 (schedI none infl) n = pend reg u infl n := by
      intro n; simp [pend, schedI, h2]
    refine ⟨qinv_push h.q lane ev reg, by simp [schedI, h3, hi], fun w hw => h.vi w hw,
      by rw [h2]; exact h.vs, ?_, h.vl, ?_, ?_⟩
    · intro l hl'
      rcases h4 l hl' with h5 | h5
      · exact h.vd l h5
      · rw [h5]; exact hlt
    · intro n hn; rw [hp]; exact h.lang n hn
    · intro l n hn hd
      rw [hp]
      rcases hd with hd | hd
      · rcases h4 l hd with h5 | h5
        · exact h.opn l n hn (Or.inl h5)
        · subst h5; exact h.opn l n hn (Or.inr hl)
      · exact h.opn l n hn (Or.inr hd)

/-- The write in flight has been delivered (its notes moved the checker state of its key from `b n0` to `b1`):
the next write is taken and the invariant holds for the new checker state. -/
theorem pinv_done {reg : Registry} {b : Nat → Bool} {Lk : Nat → Prop} {u : Uplinks} {w : Write}
    (h : PInv reg b Lk u (some w)) {n0 : Nat} {b1 : Bool} (hn0 : w.lane = some n0)
    (hb1 : runNotes (b n0) w.notes = some b1) (b' : Nat → Bool) (hb' : ∀ n, b' n = if n = n0 then b1 else b n) :
    PInv reg b' Lk (u.replaceAndPop reg).1 (u.replaceAndPop reg).2 := by
  have ha : u.writerHome = false := by
    cases hw : u.writerHome with
    | false => rfl
    | true => have := h.w.mp hw; simp at this
  have hq := qinv_replaceAndPop h.q ha reg
  have hw : ∀ n, runNotes (b n) (wNotes n w) = some (b' n) := by
    intro n
    rw [hb']
    by_cases he : n = n0
    · subst he; simp [wNotes, hn0, hb1]
    · have : ¬ (w.lane = some n) := by rw [hn0]; intro hc; exact he (Option.some.inj hc).symm
      simp [wNotes, this, he, runNotes]
  have hrun : ∀ n rest, runNotes (b n) (wNotes n w ++ rest) = runNotes (b' n) rest := by
    intro n rest; rw [runNotes_append, hw]; rfl
  cases hs : u.specialQueue with
  | cons a rest =>
    have e1 : u.replaceAndPop reg = ({ u with specialQueue := rest }, some (specialWrite reg a)) := by
      simp [Uplinks.replaceAndPop, hs]
    rw [e1] at hq ⊢
    have hp : ∀ n, pend reg u (some w) n =
        wNotes n w ++ pend reg { u with specialQueue := rest } (some (specialWrite reg a)) n := by
      intro n; simp [pend, inflNotes, hs, spNotes]
    have hva : spValid reg a := h.vs a (by rw [hs]; simp)
    refine ⟨hq.1, hq.2, ?_, ?_, h.vd, h.vl, ?_, ?_⟩
    · intro w' hw'
      simp only [Option.some.injEq] at hw'
      subst hw'
      exact specialWrite_valid hva
    · intro x hx
      exact h.vs x (by rw [hs]; exact List.mem_cons_of_mem _ hx)
    · intro n hn
      rw [← hrun, ← hp]; exact h.lang n hn
    · intro l n hn hd
      rw [← hrun, ← hp]; exact h.opn l n hn hd
  | nil =>
    have e2 : u.replaceAndPop reg = u.popLoop reg (u.writeQueue.length + 1) := by
      simp [Uplinks.replaceAndPop, hs]
    rw [e2] at hq ⊢
    obtain ⟨p1, p2, p3⟩ := popLoop_spec reg (u.writeQueue.length + 1) u
    have hp : ∀ n, pend reg u (some w) n = wNotes n w := by
      intro n; simp [pend, inflNotes, hs, spNotes]
    have hfin : ∀ n, runNotes (b n) (pend reg u (some w) n) = some (b' n) := by
      intro n; rw [hp]; exact hw n
    have hopen : ∀ l n, reg.nameFor l = some n →
        (hasData (u.popLoop reg (u.writeQueue.length + 1)).1 l = true ∨ Lk l) → b' n = true := by
      intro l n hn hd
      have := h.opn l n hn (hd.imp (p2 l) id)
      rw [hfin] at this
      exact Option.some.inj this
    generalize u.popLoop reg (u.writeQueue.length + 1) = r at hq p1 p2 p3 hopen ⊢
    obtain ⟨u', ow⟩ := r
    simp only at hq p1 p2 p3 hopen ⊢
    have hsq : u'.specialQueue = [] := by rw [p1, hs]
    cases ow with
    | none =>
      have hp' : ∀ n, pend reg u' none n = [] := by intro n; simp [pend, inflNotes, hsq, spNotes]
      refine ⟨hq.1, hq.2, by simp, by simp [hsq], fun l hl => h.vd l (p2 l hl), h.vl, ?_, ?_⟩
      · intro n hn; rw [hp']; simp [runNotes]
      · intro l n hn hd
        rw [hp', hopen l n hn hd]; rfl
    | some w' =>
      obtain ⟨l0, d1, d2, d3⟩ := p3 w' rfl
      obtain ⟨m, hm, hmr⟩ := nameFor_lt (h.vd l0 d1)
      have hbm : b' m = true := by
        have := h.opn l0 m hm (Or.inl d1)
        rw [hfin] at this
        exact Option.some.inj this
      have hp' : ∀ n, pend reg u' (some w') n = if m = n then w'.notes else [] := by
        intro n; simp [pend, inflNotes, hsq, spNotes, wNotes, d2, hm]
      refine ⟨hq.1, hq.2, ?_, by simp [hsq], fun l hl => h.vd l (p2 l hl), h.vl, ?_, ?_⟩
      · intro w'' hw''
        simp only [Option.some.injEq] at hw''
        subst hw''
        exact ⟨m, d2.trans hm, Or.inl hmr⟩
      · intro n hn
        rw [hp']
        split
        · rename_i he; subst he
          rw [hbm, runNotes_data _ d3]; simp
        · simp [runNotes]
      · intro l n hn hd
        rw [hp', hopen l n hn hd]
        split
        · exact runNotes_data _ d3
        · rfl

end SwimVerif.WT
