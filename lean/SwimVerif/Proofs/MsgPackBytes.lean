/-
C16 — byte-level lemmas of the MessagePack model: fixed-width big-endian numbers and the map / array headers.
-/
import SwimVerif.Proofs.MsgPack

namespace SwimVerif.MsgPack
open SwimVerif.Recon

theorem leBytes_length (k n : Nat) : (leBytes k n).length = k := by
  induction k generalizing n with
  | zero => simp [leBytes]
  | succ k ih => simp [leBytes, ih]

theorem leVal_leBytes (k n : Nat) : leVal (leBytes k n) = n % 256 ^ k := by
  induction k generalizing n with
  | zero => simp [leBytes, leVal, Nat.mod_one]
  | succ k ih =>
    simp only [leBytes, leVal, ih]
    rw [Nat.pow_succ', Nat.mod_mul]

theorem be_length (k n : Nat) : (be k n).length = k := by simp [be, leBytes_length]

theorem beVal_be (k n : Nat) (h : n < 256 ^ k) : beVal (be k n) = n := by
  simp [beVal, be, leVal_leBytes, Nat.mod_eq_of_lt h]

theorem takeN_append (a rest : List Nat) : takeN a.length (a ++ rest) = some (a, rest) := by
  simp [takeN]

theorem rdU_be (k n : Nat) (h : n < 256 ^ k) (rest : List Nat) : rdU k (be k n ++ rest) = some (n, rest) := by
  have := takeN_append (be k n) rest
  rw [be_length] at this
  simp [rdU, this, beVal_be k n h]

theorem lenRT : LenRT := by
  intro n hn
  have hU : U32 = 4294967296 := rfl
  constructor
  · by_cases h1 : n < 16
    · refine ⟨128 + n, [], by simp [wMapLen, h1], by simp [isMapMarker]; omega, ?_⟩
      intro rest
      have : 128 ≤ 128 + n ∧ 128 + n < 144 := by omega
      simp [rdMapLen, this]
    · by_cases h2 : n < 65536
      · refine ⟨222, be 2 n, by simp [wMapLen, h1, h2], by decide, ?_⟩
        intro rest
        simp [rdMapLen, rdU_be 2 n (by omega)]
      · refine ⟨223, be 4 n, by simp [wMapLen, h1, h2], by decide, ?_⟩
        intro rest
        simp [rdMapLen, rdU_be 4 n (by omega)]
  · by_cases h1 : n < 16
    · refine ⟨144 + n, [], by simp [wArrLen, h1], by simp [isMapMarker]; omega, by simp [isArrMarker]; omega, ?_⟩
      intro rest
      have : 144 ≤ 144 + n ∧ 144 + n < 160 := by omega
      simp [rdArrLen, this]
    · by_cases h2 : n < 65536
      · refine ⟨220, be 2 n, by simp [wArrLen, h1, h2], by decide, by decide, ?_⟩
        intro rest
        simp [rdArrLen, rdU_be 2 n (by omega)]
      · refine ⟨221, be 4 n, by simp [wArrLen, h1, h2], by decide, by decide, ?_⟩
        intro rest
        simp [rdArrLen, rdU_be 4 n (by omega)]

end SwimVerif.MsgPack
