/-
C03 (map lane): every line of the model's protocol survives render → parse (`lineProtoOk` holds of every trace), so
the line-level trace predicate `modelTraceOk` equals the typed one.
-/
import SwimVerif.Proofs.C03Bridge
import SwimVerif.Proofs.C03Strings
open String SwimVerif.Str

set_option linter.unusedVariables false
set_option linter.unusedSimpArgs false
set_option linter.unnecessarySimpa false
namespace SwimVerif.ML

theorem isWs_of_digit (c : Char) (h : c.isDigit = true) : c.isWhitespace = false := by
  simp only [Char.isDigit, Bool.and_eq_true, decide_eq_true_eq] at h
  simp only [Char.isWhitespace, Bool.or_eq_false_iff, decide_eq_false_iff_not]
  refine ⟨⟨⟨?_, ?_⟩, ?_⟩, ?_⟩ <;> (intro hc; subst hc; revert h; decide)

theorem repr_digits (n : Nat) : ∀ c, c ∈ (Nat.repr n).toList → c.isDigit = true := by
  intro c hc
  rw [Nat.toList_repr] at hc
  exact Nat.isDigit_of_mem_toDigits (by omega) (by omega) hc

theorem repr_tokOk (n : Nat) : tokOk (Nat.repr n) = true := by
  simp only [tokOk, Bool.and_eq_true, Bool.not_eq_true', List.isEmpty_eq_false_iff, List.all_eq_true]
  refine ⟨?_, fun c hc => isWs_of_digit c (repr_digits n c hc)⟩
  intro h
  have : Nat.repr n = "" := by rw [← String.ofList_toList (s := Nat.repr n), h]
  exact absurd this (by simp)

theorem repr_noColon (n : Nat) : ':' ∉ (Nat.repr n).toList := by
  intro h
  have := repr_digits n ':' h
  revert this; decide

@[simp] theorem toString_str (s : String) : toString s = s := rfl

theorem words_upd (k v : Nat) : words (Op.render (.update k v)) = ["upd", Nat.repr k, Nat.repr v] := by
  apply words_of_toList _ _ (by simp)
  · simp [Op.render, joinC, String.toList_append]
  · intro t ht
    simp at ht
    rcases ht with rfl | rfl | rfl
    · decide
    · exact repr_tokOk k
    · exact repr_tokOk v

theorem parse_upd (k v : Nat) : parseOp (Op.render (.update k v)) = some (.update k v) := by
  unfold parseOp
  rw [words_upd]
  simp [Nat.toNat?_repr]

theorem opLineOk_upd (k v : Nat) : opLineOk (.update k v) = true := by
  simp [opLineOk, parse_upd, words_upd]

theorem digits_noWs (n : Nat) : (Nat.toDigits 10 n).all (fun c => !c.isWhitespace) = true := by
  simp only [List.all_eq_true, Bool.not_eq_true']
  intro c hc
  exact isWs_of_digit c (Nat.isDigit_of_mem_toDigits (by omega) (by omega) hc)

theorem tokOk_frame (f : Frame) : tokOk f.render = true := by
  cases f <;> simp [tokOk, Frame.render, String.toList_append, List.all_append, digits_noWs]

theorem tokOk_res (r : WriteResult) : tokOk r.render = true := by
  cases r <;> decide

theorem frame_ne_dash (f : Frame) : f.render ≠ "-" := by
  intro h
  have := congrArg (fun s => s.toList.head?) h
  cases f <;> simp [Frame.render, String.toList_append] at this

theorem words_out (r : WriteResult) (f : Frame) :
    words (renderOut (some (r, some f))) = [r.render, f.render] := by
  apply words_of_toList _ _ (by simp)
  · simp [renderOut, joinC, String.toList_append]
  · intro t ht
    simp at ht
    rcases ht with rfl | rfl
    · exact tokOk_res r
    · exact tokOk_frame f

theorem words_out_none (r : WriteResult) :
    words (renderOut (some (r, none))) = [r.render, "-"] := by
  apply words_of_toList _ _ (by simp)
  · simp [renderOut, joinC, String.toList_append]
  · intro t ht
    simp at ht
    rcases ht with rfl | rfl
    · exact tokOk_res r
    · decide

theorem colon_eq : (":" : String) = String.singleton ':' := rfl

theorem parseFrame_render (f : Frame) : parseFrame f.render = some f := by
  unfold parseFrame
  rw [colon_eq]
  cases f with
  | upd k v =>
    rw [splitOn_of_toList _ ':' ["ev", "upd", Nat.repr k, Nat.repr v] (by simp)
      (by simp [Frame.render, joinC, String.toList_append])
      (by intro t ht; simp at ht; rcases ht with rfl | rfl | rfl | rfl <;> first | decide | exact repr_noColon _)]
    simp [Nat.toNat?_repr]
  | rem k =>
    rw [splitOn_of_toList _ ':' ["ev", "rem", Nat.repr k] (by simp)
      (by simp [Frame.render, joinC, String.toList_append])
      (by intro t ht; simp at ht; rcases ht with rfl | rfl | rfl <;> first | decide | exact repr_noColon _)]
    simp [Nat.toNat?_repr]
  | clear =>
    rw [splitOn_of_toList _ ':' ["ev", "clr"] (by simp)
      (by simp [Frame.render, joinC, String.toList_append])
      (by intro t ht; simp at ht; rcases ht with rfl | rfl <;> decide)]
    simp
  | sync r k v =>
    rw [splitOn_of_toList _ ':' ["sync", Nat.repr r, Nat.repr k, Nat.repr v] (by simp)
      (by simp [Frame.render, joinC, String.toList_append])
      (by intro t ht; simp at ht; rcases ht with rfl | rfl | rfl | rfl <;> first | decide | exact repr_noColon _)]
    simp [Nat.toNat?_repr]
  | synced r =>
    rw [splitOn_of_toList _ ':' ["synced", Nat.repr r] (by simp)
      (by simp [Frame.render, joinC, String.toList_append])
      (by intro t ht; simp at ht; rcases ht with rfl | rfl <;> first | decide | exact repr_noColon _)]
    simp [Nat.toNat?_repr]

theorem words1 (a : String) (ha : tokOk a = true) : words a = [a] := by
  apply words_of_toList _ _ (by simp)
  · simp [joinC]
  · intro t ht; simp at ht; subst ht; exact ha

theorem words2 (s a : String) (n : Nat) (hs : s = a ++ " " ++ Nat.repr n) (ha : tokOk a = true) :
    words s = [a, Nat.repr n] := by
  subst hs
  apply words_of_toList _ _ (by simp)
  · simp [joinC, String.toList_append]
  · intro t ht
    simp at ht
    rcases ht with rfl | rfl
    · exact ha
    · exact repr_tokOk n

theorem opLineOk_all (op : Op) : opLineOk op = true := by
  cases op with
  | update k v => exact opLineOk_upd k v
  | remove k =>
    have hw : words (Op.render (.remove k)) = ["rem", Nat.repr k] :=
      words2 _ _ _ (by simp [Op.render]) (by decide)
    simp [opLineOk, parseOp, hw, Nat.toNat?_repr]
  | clear =>
    have hw : words (Op.render .clear) = ["clr"] := words1 _ (by decide)
    simp [opLineOk, parseOp, hw]
  | sync r =>
    have hw : words (Op.render (.sync r)) = ["sync", Nat.repr r] :=
      words2 _ _ _ (by simp [Op.render]) (by decide)
    simp [opLineOk, parseOp, hw, Nat.toNat?_repr]
  | write =>
    have hw : words (Op.render .write) = ["write"] := words1 _ (by decide)
    simp [opLineOk, parseOp, hw]
  | dropFirst n =>
    have hw : words (Op.render (.dropFirst n)) = ["drop", Nat.repr n] :=
      words2 _ _ _ (by simp [Op.render]) (by decide)
    simp [opLineOk, parseOp, hw, Nat.toNat?_repr]
  | takeFirst n =>
    have hw : words (Op.render (.takeFirst n)) = ["take", Nat.repr n] :=
      words2 _ _ _ (by simp [Op.render]) (by decide)
    simp [opLineOk, parseOp, hw, Nat.toNat?_repr]

theorem outLineOk_step (s : St) (op : Op) : outLineOk (step s op).2 = true := by
  by_cases hop : op = .write
  · subst hop
    rcases step_write_out s with ⟨r, f, hx⟩ | hx
    · rw [hx]
      simp [outLineOk, words_out, frame_ne_dash, parseFrame_render]
    · rw [hx]
      simp [outLineOk, words_out_none]
  · rw [step_nonwrite_out s op hop]
    rfl

/-- every line of every model trace survives render → parse -/
theorem lineProtoOk_all : ∀ (ops : List Op) (s : St), lineProtoOk s ops = true := by
  intro ops
  induction ops with
  | nil => intro s; rfl
  | cons op rest ih =>
    intro s
    simp [lineProtoOk, opLineOk_all, outLineOk_step, ih]

theorem modelTraceOk_eq (ops : List Op) (s : St) (m : Mon) : modelTraceOk s m ops = traceOkT s m ops :=
  modelTraceOk_eq_traceOkT ops s m (lineProtoOk_all ops s)

end SwimVerif.ML
