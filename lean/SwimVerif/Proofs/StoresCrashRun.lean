/-
C13: histories of the RocksDB store model with any number of kills (each at any cut of an op in flight) and reopen
points, against the specification extended with the three crash shapes of `crashCuts_cases`.
-/
import SwimVerif.Proofs.StoresCrash

set_option linter.unusedVariables false
set_option linter.unusedSimpArgs false
namespace SwimVerif.Store.Rocks
open SwimVerif.Generated.Store

/-- A history event: an op that completes (is acknowledged), or a kill while `inflight` is being executed, at cut
number `cut` of its RocksDB writes (out-of-range cut numbers mean "before the first write"), followed by the directory
being opened again. -/
inductive CEv
  | op (o : Op)
  | crash (inflight : Op) (cut : Nat)

def CEv.idOk : CEv → Prop
  | .op o => Op.idOk o
  | .crash o _ => Op.idOk o

def cutAt (s : St) (inflight : Op) (cut : Nat) : St := ((crashCuts s inflight)[cut]?).getD s

def crunOut (s : St) : List CEv → St × List Out
  | [] => (s, [])
  | .op o :: evs => let r := step s o; let q := crunOut r.1 evs; (q.1, r.2 :: q.2)
  | .crash o cut :: evs => crunOut (recover (cutAt s o cut)) evs

/-- What a kill may do to the specification state. -/
inductive SCrash (s : SSt) (inflight : Op) : SSt → Prop
  | before : SCrash s inflight (sstep s .reopen).1
  | after : SCrash s inflight (sstep (sstep s inflight).1 .reopen).1
  | burnt (slot p : Nat) (uri name : Bytes) : inflight = .data slot (.idFor name) →
      aget s.slots slot = some (p, uri) → (sget s p).ids (laneKey uri name) = none →
      SCrash s inflight (sstep (sset s p (burn (sget s p))) .reopen).1

/-- Specification histories: acknowledged ops are specification steps, kills are `SCrash`. -/
inductive SReach : SSt → List CEv → SSt → List SOut → Prop
  | nil (s : SSt) : SReach s [] s []
  | op (s : SSt) (o : Op) (evs : List CEv) (t : SSt) (outs : List SOut) :
      SReach (sstep s o).1 evs t outs → SReach s (.op o :: evs) t ((sstep s o).2 :: outs)
  | crash (s s' : SSt) (o : Op) (cut : Nat) (evs : List CEv) (t : SSt) (outs : List SOut) :
      SCrash s o s' → SReach s' evs t outs → SReach s (.crash o cut :: evs) t outs

theorem self_mem_crashCuts (s : St) (op : Op) : s ∈ crashCuts s op := by
  cases op with
  | data slot d =>
    cases d with
    | idFor name =>
      simp only [crashCuts]
      split
      · simp only [idForCuts]; split <;> simp
      · simp
    | _ => simp [crashCuts]
  | _ => simp [crashCuts]

theorem cutAt_mem (s : St) (op : Op) (cut : Nat) : cutAt s op cut ∈ crashCuts s op := by
  unfold cutAt
  cases h : (crashCuts s op)[cut]? with
  | none => exact self_mem_crashCuts s op
  | some x => exact List.mem_of_getElem? h

theorem scrash_of_cut (s : St) (hinv : StInv s) (op : Op) (hop : Op.idOk op) (cut : Nat) :
    StInv (recover (cutAt s op cut)) ∧ SCrash (absSt s) op (absSt (recover (cutAt s op cut))) := by
  obtain ⟨h1, h2⟩ := crashCuts_cases s hinv op hop _ (cutAt_mem s op cut)
  refine ⟨h1, ?_⟩
  rcases h2 with e | e | ⟨slot, p, uri, name, e1, e2, e3, e4⟩
  · rw [e]; exact .before
  · rw [e]; exact .after
  · rw [e4]; exact .burnt slot p uri name e1 e2 e3

/-- Every history of the store model with kills and reopen points is a specification history. -/
theorem crun_refines (evs : List CEv) : ∀ (s : St), StInv s → (∀ e ∈ evs, CEv.idOk e) →
    StInv (crunOut s evs).1 ∧
      ∃ souts, SReach (absSt s) evs (absSt (crunOut s evs).1) souts ∧ OutsRel (crunOut s evs).2 souts := by
  induction evs with
  | nil => intro s h _; exact ⟨h, [], .nil _, .nil⟩
  | cons e es ih =>
    intro s h hok
    have hes : ∀ x ∈ es, CEv.idOk x := fun x hx => hok x (List.mem_cons_of_mem _ hx)
    cases e with
    | op o =>
      obtain ⟨h1, h2, h3⟩ := step_refines s h o (hok _ List.mem_cons_self)
      obtain ⟨g1, souts, g2, g3⟩ := ih (step s o).1 h1 hes
      simp only [crunOut]
      rw [h2] at g2
      exact ⟨g1, _, .op _ _ _ _ _ g2, .cons h3 g3⟩
    | crash o cut =>
      obtain ⟨h1, h2⟩ := scrash_of_cut s h o (hok _ List.mem_cons_self) cut
      obtain ⟨g1, souts, g2, g3⟩ := ih _ h1 hes
      simp only [crunOut]
      exact ⟨g1, souts, .crash _ _ _ _ _ _ _ h2 g2, g3⟩

/-! ### what specification histories with kills preserve -/

theorem ids_scrash {s s' : SSt} {o : Op} (hc : SCrash s o s') (h0 : IdsInv 1 s.p0) (h1 : IdsInv 1 s.p1) :
    IdsInv 1 s'.p0 ∧ IdsInv 1 s'.p1 ∧
      (∀ nm n, s.p0.ids nm = some n → s'.p0.ids nm = some n) ∧
      (∀ nm n, s.p1.ids nm = some n → s'.p1.ids nm = some n) := by
  cases hc with
  | before => exact ⟨h0, h1, fun _ _ hh => hh, fun _ _ hh => hh⟩
  | after =>
    obtain ⟨a0, a1, b0, b1⟩ := Rocks.ids_sstep s h0 h1 o
    exact ⟨a0, a1, b0, b1⟩
  | burnt slot p uri name e1 e2 e3 =>
    by_cases hp : p = 0
    · simp only [sstep, sset, sget, hp, ↓reduceIte]
      exact ⟨idsInv_burn h0, h1, fun _ _ hh => hh, fun _ _ hh => hh⟩
    · simp only [sstep, sset, sget, hp, ↓reduceIte]
      exact ⟨h0, idsInv_burn h1, fun _ _ hh => hh, fun _ _ hh => hh⟩

theorem ids_sreach {s t : SSt} {evs : List CEv} {outs : List SOut} (hr : SReach s evs t outs) :
    IdsInv 1 s.p0 → IdsInv 1 s.p1 →
    IdsInv 1 t.p0 ∧ IdsInv 1 t.p1 ∧
      (∀ nm n, s.p0.ids nm = some n → t.p0.ids nm = some n) ∧
      (∀ nm n, s.p1.ids nm = some n → t.p1.ids nm = some n) := by
  induction hr with
  | nil s => intro h0 h1; exact ⟨h0, h1, fun _ _ hh => hh, fun _ _ hh => hh⟩
  | op s o evs t outs _ ih =>
    intro h0 h1
    obtain ⟨a0, a1, b0, b1⟩ := Rocks.ids_sstep s h0 h1 o
    obtain ⟨c0, c1, d0, d1⟩ := ih a0 a1
    exact ⟨c0, c1, fun nm n hh => d0 nm n (b0 nm n hh), fun nm n hh => d1 nm n (b1 nm n hh)⟩
  | crash s s' o cut evs t outs hc _ ih =>
    intro h0 h1
    obtain ⟨a0, a1, b0, b1⟩ := ids_scrash hc h0 h1
    obtain ⟨c0, c1, d0, d1⟩ := ih a0 a1
    exact ⟨c0, c1, fun nm n hh => d0 nm n (b0 nm n hh), fun nm n hh => d1 nm n (b1 nm n hh)⟩

/-- A kill changes nothing a client can read back, relative to the state before or after the op in flight. -/
theorem scrash_sameData {s s' : SSt} {o : Op} (hc : SCrash s o s') :
    SameData s' (sstep s .reopen).1 ∨ SameData s' (sstep (sstep s o).1 .reopen).1 := by
  cases hc with
  | before => exact Or.inl (sameData_refl _)
  | after => exact Or.inr (sameData_refl _)
  | burnt slot p uri name e1 e2 e3 => exact Or.inl (sameData_burn s p)

end SwimVerif.Store.Rocks
