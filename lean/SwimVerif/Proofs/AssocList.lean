import SwimVerif.Model.AssocList

namespace SwimVerif

variable {α : Type}

@[simp] theorem alGet_nil (k : Nat) : alGet ([] : List (Nat × α)) k = none := rfl

theorem alGet_alSet (l : List (Nat × α)) (k k' : Nat) (v : α) :
    alGet (alSet l k v) k' = if k = k' then some v else alGet l k' := by
  induction l with
  | nil => simp [alSet, alGet]
  | cons p rest ih =>
    obtain ⟨a, b⟩ := p
    by_cases h1 : a = k
    · subst h1
      by_cases h2 : a = k' <;> simp [alSet, alGet, h2]
    · by_cases h2 : a = k'
      · subst h2
        simp [alSet, alGet, h1]
        intro h; exact absurd h.symm h1
      · simp [alSet, alGet, h1, h2, ih]

@[simp] theorem alGet_alSet_same (l : List (Nat × α)) (k : Nat) (v : α) : alGet (alSet l k v) k = some v := by
  rw [alGet_alSet]; simp

theorem alGet_alSet_ne (l : List (Nat × α)) {k k' : Nat} (v : α) (h : k ≠ k') :
    alGet (alSet l k v) k' = alGet l k' := by
  rw [alGet_alSet]; simp [h]

theorem alGet_alErase (l : List (Nat × α)) (k k' : Nat) :
    alGet (alErase l k) k' = if k = k' then none else alGet l k' := by
  induction l with
  | nil => simp [alErase, alGet]
  | cons p rest ih =>
    obtain ⟨a, b⟩ := p
    by_cases h1 : a = k
    · subst h1
      by_cases h2 : a = k'
      · subst h2; simp [alErase, ih]
      · simp [alErase, alGet, h2, ih]
    · by_cases h2 : a = k'
      · subst h2
        simp [alErase, alGet, h1]
        intro h; exact absurd h.symm h1
      · simp [alErase, alGet, h1, h2, ih]

@[simp] theorem alGet_alErase_same (l : List (Nat × α)) (k : Nat) : alGet (alErase l k) k = none := by
  rw [alGet_alErase]; simp

theorem alGet_alErase_ne (l : List (Nat × α)) {k k' : Nat} (h : k ≠ k') :
    alGet (alErase l k) k' = alGet l k' := by
  rw [alGet_alErase]; simp [h]

end SwimVerif
