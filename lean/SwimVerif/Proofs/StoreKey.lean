/-
Lemmas about the bytewise order, little-endian integers and the `StoreKey` layout (C13).
-/
import SwimVerif.Model.StoreKey

namespace SwimVerif.Store
open SwimVerif.Generated.Store

/-! ### little-endian -/

@[simp] theorem leBytes_length (w n : Nat) : (leBytes w n).length = w := by
  induction w generalizing n with
  | zero => rfl
  | succ w ih => simp [leBytes, ih]

theorem leBytes_inj (w : Nat) : ∀ n m : Nat, n < 256 ^ w → m < 256 ^ w → leBytes w n = leBytes w m → n = m := by
  induction w with
  | zero => intro n m hn hm _; simp at hn hm; omega
  | succ w ih =>
    intro n m hn hm h
    simp only [leBytes, List.cons.injEq] at h
    have h1 : n / 256 = m / 256 := by
      apply ih _ _ _ _ h.2
      · rw [Nat.pow_succ] at hn; omega
      · rw [Nat.pow_succ] at hm; omega
    omega

theorem leBytes_lt (w n : Nat) : ∀ b ∈ leBytes w n, b < 256 := by
  induction w generalizing n with
  | zero => simp [leBytes]
  | succ w ih =>
    intro b hb
    simp only [leBytes, List.mem_cons] at hb
    rcases hb with rfl | hb
    · omega
    · exact ih _ b hb

/-! ### the bytewise order -/

@[simp] theorem blt_irrefl (a : Bytes) : blt a a = false := by
  induction a with
  | nil => rfl
  | cons x xs ih => simp [blt, ih]

@[simp] theorem blt_nil_right (a : Bytes) : blt a [] = false := by
  cases a <;> rfl

theorem blt_asymm : ∀ a b : Bytes, blt a b = true → blt b a = false := by
  intro a
  induction a with
  | nil => intro b _; simp
  | cons x xs ih =>
    intro b h
    cases b with
    | nil => simp [blt] at h
    | cons y ys =>
      simp only [blt, Bool.or_eq_true, decide_eq_true_eq, Bool.and_eq_true, beq_iff_eq] at h
      simp only [blt, Bool.or_eq_false_iff, decide_eq_false_iff_not, Bool.and_eq_false_imp, beq_iff_eq]
      rcases h with h | ⟨rfl, h⟩
      · constructor
        · omega
        · intro hyx; omega
      · exact ⟨by omega, fun _ => ih ys h⟩

theorem blt_trans : ∀ a b c : Bytes, blt a b = true → blt b c = true → blt a c = true := by
  intro a
  induction a with
  | nil =>
    intro b c h1 h2
    cases b with
    | nil => simp [blt] at h1
    | cons y ys => cases c with
      | nil => simp at h2
      | cons z zs => rfl
  | cons x xs ih =>
    intro b c h1 h2
    cases b with
    | nil => simp at h1
    | cons y ys =>
      cases c with
      | nil => simp at h2
      | cons z zs =>
        simp only [blt, Bool.or_eq_true, decide_eq_true_eq, Bool.and_eq_true, beq_iff_eq] at h1 h2 ⊢
        rcases h1 with h1 | ⟨rfl, h1⟩
        · rcases h2 with h2 | ⟨rfl, h2⟩
          · left; omega
          · left; exact h1
        · rcases h2 with h2 | ⟨rfl, h2⟩
          · left; exact h2
          · right; exact ⟨rfl, ih ys zs h1 h2⟩

theorem blt_total : ∀ a b : Bytes, blt a b = true ∨ a = b ∨ blt b a = true := by
  intro a
  induction a with
  | nil => intro b; cases b with
    | nil => right; left; rfl
    | cons y ys => left; rfl
  | cons x xs ih =>
    intro b
    cases b with
    | nil => right; right; rfl
    | cons y ys =>
      simp only [blt, Bool.or_eq_true, decide_eq_true_eq, Bool.and_eq_true, beq_iff_eq, List.cons.injEq]
      rcases Nat.lt_trichotomy x y with h | rfl | h
      · left; left; exact h
      · rcases ih ys with h | rfl | h
        · left; right; exact ⟨rfl, h⟩
        · right; left; exact ⟨rfl, rfl⟩
        · right; right; right; exact ⟨rfl, h⟩
      · right; right; left; exact h

theorem blt_append_left (p a b : Bytes) : blt (p ++ a) (p ++ b) = blt a b := by
  induction p with
  | nil => rfl
  | cons x xs ih => simp [blt, ih]

/-- Two different strings of the same length decide the order of anything that extends them. -/
theorem blt_append_of_ne : ∀ (p q : Bytes), p.length = q.length → p ≠ q → ∀ a b : Bytes,
    blt (p ++ a) (q ++ b) = blt p q := by
  intro p
  induction p with
  | nil => intro q hl hne; cases q with
    | nil => exact absurd rfl hne
    | cons _ _ => simp at hl
  | cons x xs ih =>
    intro q hl hne a b
    cases q with
    | nil => simp at hl
    | cons y ys =>
      simp only [List.length_cons, Nat.add_right_cancel_iff] at hl
      simp only [List.cons_append, blt]
      by_cases hxy : x = y
      · subst hxy
        have : xs ≠ ys := fun h => hne (by rw [h])
        rw [ih ys hl this a b]
      · have : (x == y) = false := by simp [hxy]
        simp [this]

theorem blt_self_append_cons (p : Bytes) (x : Nat) (r : Bytes) : blt p (p ++ x :: r) = true := by
  have := blt_append_left p [] (x :: r)
  simpa [blt] using this

theorem ble_self_append (p r : Bytes) : ble p (p ++ r) = true := by
  have := blt_append_left p r []
  simp [ble] at this ⊢
  simpa using this

/-- `take w` is monotone for the bytewise order. -/
theorem blt_take_mono (w : Nat) : ∀ a b : Bytes, blt (a.take w) (b.take w) = true → blt a b = true := by
  induction w with
  | zero => intro a b h; simp at h
  | succ w ih =>
    intro a b h
    cases a with
    | nil => cases b with
      | nil => simp at h
      | cons y ys => rfl
    | cons x xs => cases b with
      | nil => simp at h
      | cons y ys =>
        simp only [List.take_succ_cons, blt, Bool.or_eq_true, decide_eq_true_eq, Bool.and_eq_true, beq_iff_eq] at h ⊢
        rcases h with h | ⟨rfl, h⟩
        · left; exact h
        · right; exact ⟨rfl, ih xs ys h⟩

/-! ### key layout -/

theorem tags_distinct : valTag ≠ mapTag ∧ keyTag < uboundTag := by decide

theorem widths : idLen = 8 ∧ sizeLen = 8 ∧ tagLen = 1 ∧ mapKeyPrefixSize = idLen + 2 * tagLen + sizeLen ∧
    prefixExtractorWidth = 8 := by decide

/-- The 9-byte lane prefix `[MAP_TAG][id LE]`. -/
def lanePrefixBytes (id : Nat) : Bytes := mapTag :: leBytes idLen id

theorem ser_map_none (id : Nat) : StoreKey.ser (.map id none) = lanePrefixBytes id := rfl

theorem ser_map_some (id : Nat) (k : Bytes) :
    StoreKey.ser (.map id (some k)) = lanePrefixBytes id ++ keyTag :: (leBytes sizeLen k.length ++ k) := by
  simp [StoreKey.ser, lanePrefixBytes]

theorem mapUbound_eq (id : Nat) : mapUbound id = lanePrefixBytes id ++ [uboundTag] := by
  simp [mapUbound, lanePrefixBytes]

@[simp] theorem lanePrefixBytes_length (id : Nat) : (lanePrefixBytes id).length = 9 := by
  simp [lanePrefixBytes, idLen]

theorem lanePrefixBytes_inj (a b : Nat) (ha : a < u64) (hb : b < u64) (h : lanePrefixBytes a = lanePrefixBytes b) :
    a = b := by
  simp only [lanePrefixBytes, List.cons.injEq, true_and] at h
  exact leBytes_inj idLen a b (by simpa [idLen, u64] using ha) (by simpa [idLen, u64] using hb) h

end SwimVerif.Store

namespace SwimVerif.Store
open SwimVerif.Generated.Store

def StoreKey.id : StoreKey → Nat
  | .map id _ => id
  | .value id => id

theorem ser_injective (k1 k2 : StoreKey) (h1 : k1.id < u64) (h2 : k2.id < u64) (h : k1.ser = k2.ser) : k1 = k2 := by
  have hv : valTag ≠ mapTag := tags_distinct.1
  cases k1 with
  | value a =>
    cases k2 with
    | value b =>
      simp only [StoreKey.ser, List.cons.injEq, true_and] at h
      have := leBytes_inj idLen a b (by simpa [idLen, u64, StoreKey.id] using h1)
        (by simpa [idLen, u64, StoreKey.id] using h2) h
      rw [this]
    | map b kb =>
      cases kb <;> simp only [StoreKey.ser, List.cons.injEq] at h <;> exact absurd h.1 hv
  | map a ka =>
    cases k2 with
    | value b =>
      cases ka <;> simp only [StoreKey.ser, List.cons.injEq] at h <;> exact absurd h.1.symm hv
    | map b kb =>
      cases ka with
      | none =>
        cases kb with
        | none =>
          have := lanePrefixBytes_inj a b h1 h2 (by simpa [ser_map_none] using h)
          rw [this]
        | some kb =>
          have := congrArg List.length h
          simp [StoreKey.ser, idLen] at this
      | some ka =>
        cases kb with
        | none =>
          have := congrArg List.length h
          simp [StoreKey.ser, idLen] at this
        | some kb =>
          rw [ser_map_some, ser_map_some] at h
          have hh := List.append_inj h (by simp)
          have hab := lanePrefixBytes_inj a b h1 h2 hh.1
          have h3 := hh.2
          simp only [List.cons.injEq, true_and] at h3
          have h4 := List.append_inj h3 (by simp)
          rw [hab, h4.2]

/-- `prefix(id) ≤ k < ubound(id)` iff `k` is a map key of lane `id`. -/
theorem inRange_lane (id id' : Nat) (h : id < u64) (h' : id' < u64) (k : Bytes) :
    inRange (StoreKey.ser (.map id none)) (mapUbound id) (StoreKey.ser (.map id' (some k))) = true ↔ id' = id := by
  rw [ser_map_none, ser_map_some, mapUbound_eq]
  constructor
  · intro hr
    by_cases hne : id' = id
    · exact hne
    · exfalso
      have hp : lanePrefixBytes id' ≠ lanePrefixBytes id := fun e => hne (lanePrefixBytes_inj id' id h' h e)
      have e1 := blt_append_of_ne (lanePrefixBytes id') (lanePrefixBytes id) (by simp) hp
        (keyTag :: (leBytes sizeLen k.length ++ k)) [uboundTag]
      have e2 := blt_append_of_ne (lanePrefixBytes id') (lanePrefixBytes id) (by simp) hp
        (keyTag :: (leBytes sizeLen k.length ++ k)) []
      simp only [List.append_nil] at e2
      simp only [inRange, ble, Bool.and_eq_true, Bool.not_eq_true'] at hr
      rw [e1] at hr
      rw [e2] at hr
      rw [hr.1] at hr
      exact absurd hr.2 (by simp)
  · rintro rfl
    simp only [inRange, Bool.and_eq_true]
    constructor
    · exact ble_self_append _ _
    · rw [blt_append_left]
      have := tags_distinct.2
      simp [blt, this]

end SwimVerif.Store
