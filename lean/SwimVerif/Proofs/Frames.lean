/-
C10 — the generic theorem: a decoder that is *lawful* for an encoder (decodes a complete frame whatever
follows it and however much of it had already been absorbed into its state; asks for more on every strict
prefix without losing a byte) decodes every concatenation of frames, under every chunking, to exactly the
encoded messages, and is left holding exactly the trailing incomplete frame. Proved once, by induction over
the chunks, and instantiated per codec in `Proofs/FrameCodecs.lean`.
-/
import SwimVerif.Model.Frames

namespace SwimVerif.Frames

/-! ### byte lemmas -/

@[simp] theorem be_length (k n : Nat) : (be k n).length = k := by
  induction k with
  | zero => rfl
  | succ k ih => simp [be, ih]

theorem rd_be (k n : Nat) : rd (be k n) = n % 256 ^ k := by
  induction k with
  | zero => simp [be, rd, Nat.mod_one]
  | succ k ih =>
    simp only [be, rd, be_length, ih]
    rw [Nat.mod_pow_succ, Nat.mul_comm, Nat.add_comm]

theorem rd_be_lt {k n : Nat} (h : n < 256 ^ k) : rd (be k n) = n := by
  rw [rd_be, Nat.mod_eq_of_lt h]

theorem rd_be8 {n : Nat} (h : n < M64) : rd (be 8 n) = n := rd_be_lt (by simpa using h)

/-- If `p ++ q = a ++ b` and `a` fits into `p`, then `p` starts with `a`. -/
theorem split_of_le {p q a b : List Nat} (h : p ++ q = a ++ b) (hl : a.length ≤ p.length) :
    ∃ p', p = a ++ p' ∧ b = p' ++ q := by
  rcases List.append_eq_append_iff.mp h with ⟨a', h1, h2⟩ | ⟨c', h1, h2⟩
  · -- a = p ++ a'
    have : a' = [] := by
      have := congrArg List.length h1; simp at this
      exact List.eq_nil_of_length_eq_zero (by omega)
    subst this; simp at h1 h2; exact ⟨[], by simp [h1], by simp [h2]⟩
  · exact ⟨c', h1, h2⟩

/-- If `p ++ q = a ++ b` and `p` is shorter than `a`, then `p` is a strict prefix of `a`. -/
theorem split_of_lt {p q a b : List Nat} (h : p ++ q = a ++ b) (hl : p.length < a.length) :
    ∃ a', a' ≠ [] ∧ a = p ++ a' ∧ q = a' ++ b := by
  rcases List.append_eq_append_iff.mp h with ⟨a', h1, h2⟩ | ⟨c', h1, h2⟩
  · refine ⟨a', ?_, h1, h2⟩
    intro h0; subst h0; simp at h1; subst h1; omega
  · have := congrArg List.length h1; simp at this; omega

/-! ### laws -/

structure Lawful {α : Type} (D : Dec α) (enc : α → List Nat) (ok : α → Prop) (wf : D.σ → Prop) : Prop where
  wf_init : wf D.init
  view_init : D.view D.init = []
  enc_ne : ∀ m, ok m → enc m ≠ []
  /-- a complete frame is decoded, exactly its bytes are consumed, the decoder is back in its initial state -/
  complete : ∀ m, ok m → ∀ s buf tail, wf s → D.view s ++ buf = enc m ++ tail →
    D.step s buf = (D.init, tail, .item m)
  /-- on a strict prefix of a frame the decoder asks for more and keeps every byte (in state or buffer) -/
  prefix_more : ∀ m, ok m → ∀ p q, p ++ q = enc m → q ≠ [] → ∀ s buf, wf s → D.view s ++ buf = p →
    wf (D.step s buf).1 ∧ (D.step s buf).2.2 = .more ∧ D.view (D.step s buf).1 ++ (D.step s buf).2.1 = p

/-- `p` is a strict prefix of the encoding of some admissible message (possibly empty). -/
def Incomplete {α : Type} (enc : α → List Nat) (ok : α → Prop) (p : List Nat) : Prop :=
  ∃ m q, ok m ∧ q ≠ [] ∧ p ++ q = enc m

theorem encodeAll_cons {α : Type} (enc : α → List Nat) (m : α) (ms : List α) :
    encodeAll enc (m :: ms) = enc m ++ encodeAll enc ms := by simp [encodeAll]

theorem encodeAll_append {α : Type} (enc : α → List Nat) (a b : List α) :
    encodeAll enc (a ++ b) = encodeAll enc a ++ encodeAll enc b := by simp [encodeAll]

theorem encodeAll_length_ge {α : Type} {enc : α → List Nat} {ok : α → Prop}
    (hne : ∀ m, ok m → enc m ≠ []) (ms : List α) (h : ∀ m ∈ ms, ok m) :
    ms.length ≤ (encodeAll enc ms).length := by
  induction ms with
  | nil => simp
  | cons m ms ih =>
    rw [encodeAll_cons]
    have h1 : (enc m).length ≠ 0 := fun h0 => hne m (h m (by simp)) (List.eq_nil_of_length_eq_zero h0)
    have := ih (fun x hx => h x (by simp [hx]))
    simp; omega

variable {α : Type} {D : Dec α} {enc : α → List Nat} {ok : α → Prop} {wf : D.σ → Prop}

/-- The decode loop on "complete frames `ms`, then an incomplete frame `p`". -/
theorem loop_spec (L : Lawful D enc ok wf) :
    ∀ (ms : List α), (∀ m ∈ ms, ok m) → ∀ (fuel : Nat) (s : D.σ) (buf : List Nat) (acc : List α) (p : List Nat),
      wf s → Incomplete enc ok p → D.view s ++ buf = encodeAll enc ms ++ p → ms.length < fuel →
      ∃ s' buf', loop D fuel s buf acc = ⟨s', buf', acc ++ ms, .more⟩ ∧ wf s' ∧ D.view s' ++ buf' = p := by
  intro ms
  induction ms with
  | nil =>
    intro _ fuel s buf acc p hwf hp hv hf
    obtain ⟨m, q, hm, hq, hpq⟩ := hp
    have hv' : D.view s ++ buf = p := by simpa [encodeAll] using hv
    obtain ⟨h1, h2, h3⟩ := L.prefix_more m hm p q hpq hq s buf hwf hv'
    cases fuel with
    | zero => omega
    | succ fuel =>
      refine ⟨(D.step s buf).1, (D.step s buf).2.1, ?_, h1, h3⟩
      simp [loop, h2]
  | cons m ms ih =>
    intro hok fuel s buf acc p hwf hp hv hf
    have hm : ok m := hok m (by simp)
    rw [encodeAll_cons, List.append_assoc] at hv
    have hc := L.complete m hm s buf _ hwf hv
    cases fuel with
    | zero => simp at hf
    | succ fuel =>
      obtain ⟨s', buf', h1, h2, h3⟩ := ih (fun x hx => hok x (by simp [hx])) fuel D.init
        (encodeAll enc ms ++ p) (acc ++ [m]) p L.wf_init hp (by simp [L.view_init]) (by simpa using hf)
      refine ⟨s', buf', ?_, h2, h3⟩
      simp [loop, hc, h1]

/-- One read: whatever was pending (`view s ++ buf`) plus the chunk is `ms` complete frames and an
incomplete one. -/
theorem feed_spec (L : Lawful D enc ok wf) (ms : List α) (hok : ∀ m ∈ ms, ok m) (s : D.σ)
    (buf chunk p : List Nat) (hwf : wf s) (hp : Incomplete enc ok p)
    (hv : D.view s ++ (buf ++ chunk) = encodeAll enc ms ++ p) :
    ∃ s' buf', feed D s buf chunk = ⟨s', buf', ms, .more⟩ ∧ wf s' ∧ D.view s' ++ buf' = p := by
  have hlen : ms.length < (D.view s ++ (buf ++ chunk)).length + 1 := by
    have := encodeAll_length_ge L.enc_ne ms hok
    rw [hv]; simp; omega
  obtain ⟨s', buf', h1, h2, h3⟩ := loop_spec L ms hok _ s (buf ++ chunk) [] p hwf hp hv hlen
  exact ⟨s', buf', by simpa [feed] using h1, h2, h3⟩

theorem incomplete_prefix {p a b : List Nat} (hp : Incomplete enc ok p) (h : p = a ++ b) :
    Incomplete enc ok a := by
  obtain ⟨m, q, hm, hq, hpq⟩ := hp
  exact ⟨m, b ++ q, hm, by simp [hq], by rw [← hpq, h]; simp⟩

/-- Cutting `ms`-then-`p` at any byte position: the left part is again complete frames then an incomplete
one. Pure list reasoning (no uniqueness of parsing is needed). -/
theorem cut_stream :
    ∀ (ms : List α), (∀ m ∈ ms, ok m) → ∀ (a b p : List Nat), Incomplete enc ok p →
      a ++ b = encodeAll enc ms ++ p →
      ∃ ms1 ms2 p1, ms = ms1 ++ ms2 ∧ Incomplete enc ok p1 ∧ a = encodeAll enc ms1 ++ p1 ∧
        p1 ++ b = encodeAll enc ms2 ++ p := by
  intro ms
  induction ms with
  | nil =>
    intro _ a b p hp h
    refine ⟨[], [], a, rfl, incomplete_prefix hp (by simpa [encodeAll] using h.symm), by simp [encodeAll], ?_⟩
    simpa [encodeAll] using h
  | cons m ms ih =>
    intro hok a b p hp h
    have hm : ok m := hok m (by simp)
    rw [encodeAll_cons, List.append_assoc] at h
    by_cases hl : a.length < (enc m).length
    · obtain ⟨a', ha', h1, h2⟩ := split_of_lt h hl
      refine ⟨[], m :: ms, a, rfl, ⟨m, a', hm, ha', h1.symm⟩, by simp [encodeAll], ?_⟩
      rw [encodeAll_cons, h1, List.append_assoc, List.append_assoc, ← h2]
    · obtain ⟨a', h1, h2⟩ := split_of_le h (by omega)
      obtain ⟨ms1, ms2, p1, e1, e2, e3, e4⟩ := ih (fun x hx => hok x (by simp [hx])) a' b p hp h2.symm
      refine ⟨m :: ms1, ms2, p1, by simp [e1], e2, ?_, e4⟩
      rw [encodeAll_cons, h1, e3, List.append_assoc]

/-- **Split-insensitivity (generic).** From a configuration holding an incomplete frame `p0`, feeding any
chunks whose concatenation completes `p0` to the frames of `ms` followed by an incomplete frame `p` yields
exactly `ms` (after whatever was already collected), every read ends in `more`, and the decoder is left
holding exactly `p`. -/
theorem feedAll_spec (L : Lawful D enc ok wf) :
    ∀ (chunks : List (List Nat)) (ms : List α), (∀ m ∈ ms, ok m) → ∀ (s : D.σ) (buf : List Nat) (acc : List α)
      (p : List Nat), wf s → Incomplete enc ok p →
      D.view s ++ buf ++ chunks.flatten = encodeAll enc ms ++ p →
      Incomplete enc ok (D.view s ++ buf) →
      ∃ s' buf', feedAll D s buf chunks acc = ⟨s', buf', acc ++ ms, .more⟩ ∧ wf s' ∧
        D.view s' ++ buf' = p := by
  intro chunks
  induction chunks with
  | nil =>
    intro ms hok s buf acc p hwf hp hv h0
    -- nothing more is fed: the pending bytes are incomplete, so no frame of `ms` can be complete
    cases ms with
    | nil => exact ⟨s, buf, by simp [feedAll], hwf, by simpa [encodeAll] using hv⟩
    | cons m ms =>
      exfalso
      have hm : ok m := hok m (by simp)
      simp only [List.flatten_nil, List.append_nil] at hv
      rw [encodeAll_cons, List.append_assoc] at hv
      have hc := L.complete m hm s buf _ hwf hv
      obtain ⟨m0, q, hm0, hq, hpq⟩ := h0
      have := (L.prefix_more m0 hm0 _ q hpq hq s buf hwf rfl).2.1
      rw [hc] at this; cases this
  | cons c cs ih =>
    intro ms hok s buf acc p hwf hp hv _
    have hv' : (D.view s ++ (buf ++ c)) ++ cs.flatten = encodeAll enc ms ++ p := by
      simpa [List.append_assoc] using hv
    obtain ⟨ms1, ms2, p1, e1, e2, e3, e4⟩ := cut_stream ms hok _ _ p hp hv'
    subst e1
    obtain ⟨s1, buf1, f1, f2, f3⟩ := feed_spec L ms1 (fun x hx => hok x (by simp [hx])) s buf c p1 hwf e2 e3
    obtain ⟨s', buf', g1, g2, g3⟩ := ih ms2 (fun x hx => hok x (by simp [hx])) s1 buf1 (acc ++ ms1) p f2 hp
      (by rw [f3]; exact e4) (by rw [f3]; exact e2)
    refine ⟨s', buf', ?_, g2, g3⟩
    simp [feedAll, f1, g1]

end SwimVerif.Frames
