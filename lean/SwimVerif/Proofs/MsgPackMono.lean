/-
C16 — the reader model is monotone in its fuel (more fuel never changes a successful read), hence `mpRead` rejects
every strict prefix of a written value.
-/
import SwimVerif.Proofs.MsgPackRej3

namespace SwimVerif.MsgPack
open SwimVerif.Recon

/-- All five readers keep a successful result when given one more unit of fuel. -/
def Mono (f : Nat) : Prop :=
  (∀ x y, rdV f x = some y → rdV (f + 1) x = some y) ∧
  (∀ n x y, rdA f n x = some y → rdA (f + 1) n x = some y) ∧
  (∀ x y, rdB f x = some y → rdB (f + 1) x = some y) ∧
  (∀ n x y, rdM f n x = some y → rdM (f + 1) n x = some y) ∧
  (∀ n x y, rdR f n x = some y → rdR (f + 1) n x = some y)

theorem mono_zero : Mono 0 := by
  refine ⟨?_, ?_, ?_, ?_, ?_⟩
  · intro x y h; simp [rdV] at h
  · intro n x y h
    cases n with
    | zero => simpa [rdA] using h
    | succ n => simp [rdA] at h
  · intro x y h; simp [rdB] at h
  · intro n x y h
    cases n with
    | zero => simpa [rdM] using h
    | succ n => simp [rdM] at h
  · intro n x y h
    cases n with
    | zero => simpa [rdR] using h
    | succ n => simp [rdR] at h

theorem mono_succ (f : Nat) (ih : Mono f) : Mono (f + 1) := by
  obtain ⟨iV, iA, iB, iM, iR⟩ := ih
  refine ⟨?_, ?_, ?_, ?_, ?_⟩
  · intro x y h
    cases x with
    | nil => simp [rdV] at h
    | cons m r =>
      by_cases hm : isMapMarker m = true
      · simp only [rdV, hm, ↓reduceIte] at h ⊢
        cases h1 : rdMapLen m r with
        | none => simp [h1] at h
        | some nr =>
          obtain ⟨n, r1⟩ := nr
          simp only [h1] at h ⊢
          cases h2 : rdA f n r1 with
          | none => simp [h2] at h
          | some ar =>
            obtain ⟨a, r2⟩ := ar
            simp only [h2, iA _ _ _ h2] at h ⊢
            cases h3 : rdB f r2 with
            | none => simp [h3] at h
            | some ir =>
              obtain ⟨i, r3⟩ := ir
              simp only [h3, iB _ _ h3] at h ⊢
              exact h
      · simp only [rdV, hm] at h ⊢
        exact h
  · intro n x y h
    cases n with
    | zero => simpa [rdA] using h
    | succ n =>
      simp only [rdA] at h ⊢
      cases h1 : rdName x with
      | none => simp [h1] at h
      | some nr =>
        obtain ⟨nm, r1⟩ := nr
        simp only [h1] at h ⊢
        cases h2 : rdV f r1 with
        | none => simp [h2] at h
        | some vr =>
          obtain ⟨v, r2⟩ := vr
          simp only [h2, iV _ _ h2] at h ⊢
          cases h3 : rdA f n r2 with
          | none => simp [h3] at h
          | some ar =>
            obtain ⟨a, r3⟩ := ar
            simp only [h3, iA _ _ _ h3] at h ⊢
            exact h
  · intro x y h
    cases x with
    | nil => simp [rdB] at h
    | cons m r =>
      by_cases hm : isMapMarker m = true
      · simp only [rdB, hm, ↓reduceIte] at h ⊢
        cases h1 : rdMapLen m r with
        | none => simp [h1] at h
        | some nr =>
          obtain ⟨n, r1⟩ := nr
          simp only [h1] at h ⊢
          exact iM _ _ _ h
      · by_cases ha : isArrMarker m = true
        · simp only [rdB, hm, ha, ↓reduceIte] at h ⊢
          cases h1 : rdArrLen m r with
          | none => simp [h1] at h
          | some nr =>
            obtain ⟨n, r1⟩ := nr
            simp only [h1] at h ⊢
            exact iR _ _ _ h
        · simp only [rdB, hm, ha] at h ⊢
          exact h
  · intro n x y h
    cases n with
    | zero => simpa [rdM] using h
    | succ n =>
      simp only [rdM] at h ⊢
      cases h1 : rdV f x with
      | none => simp [h1] at h
      | some kr =>
        obtain ⟨k, r1⟩ := kr
        simp only [h1, iV _ _ h1] at h ⊢
        cases h2 : rdV f r1 with
        | none => simp [h2] at h
        | some vr =>
          obtain ⟨v, r2⟩ := vr
          simp only [h2, iV _ _ h2] at h ⊢
          cases h3 : rdM f n r2 with
          | none => simp [h3] at h
          | some ar =>
            obtain ⟨a, r3⟩ := ar
            simp only [h3, iM _ _ _ h3] at h ⊢
            exact h
  · intro n x y h
    cases n with
    | zero => simpa [rdR] using h
    | succ n =>
      cases x with
      | nil => simp [rdR] at h
      | cons m r =>
        by_cases hm : m = 146
        · simp only [rdR, hm, ↓reduceIte] at h ⊢
          cases h1 : rdV f r with
          | none => simp [h1] at h
          | some kr =>
            obtain ⟨k, r1⟩ := kr
            simp only [h1, iV _ _ h1] at h ⊢
            cases h2 : rdV f r1 with
            | none => simp [h2] at h
            | some vr =>
              obtain ⟨v, r2⟩ := vr
              simp only [h2, iV _ _ h2] at h ⊢
              cases h3 : rdR f n r2 with
              | none => simp [h3] at h
              | some ar =>
                obtain ⟨a, r3⟩ := ar
                simp only [h3, iR _ _ _ h3] at h ⊢
                exact h
        · simp only [rdR, hm, ↓reduceIte] at h ⊢
          cases h1 : rdV f (m :: r) with
          | none => simp [h1] at h
          | some vr =>
            obtain ⟨v, r1⟩ := vr
            simp only [h1, iV _ _ h1] at h ⊢
            cases h3 : rdR f n r1 with
            | none => simp [h3] at h
            | some ar =>
              obtain ⟨a, r3⟩ := ar
              simp only [h3, iR _ _ _ h3] at h ⊢
              exact h

theorem mono_all : ∀ f, Mono f
  | 0 => mono_zero
  | f + 1 => mono_succ f (mono_all f)

theorem rdV_mono {f : Nat} {x : List Nat} {y : Value × List Nat} (h : rdV f x = some y) :
    ∀ k, rdV (f + k) x = some y
  | 0 => h
  | k + 1 => (mono_all (f + k)).1 x y (rdV_mono h k)

/-- With any fuel: no strict prefix of a written value is read as a value. -/
theorem rdV_prefix_none (v : Value) (hok : mpOk v = true) (p q : List Nat) (hq : q ≠ []) (hpq : p ++ q = wV v)
    (f : Nat) : rdV f p = none := by
  cases h : rdV f p with
  | none => rfl
  | some y =>
    have h1 := rdV_mono h (depthV v)
    have h2 := rejV v hok p q hq hpq (f + depthV v) (by omega)
    rw [h2] at h1
    exact absurd h1 (by simp)

theorem mp_truncated (v : Value) (hok : mpOk v = true) (bs : List Nat) (hw : mpWrite v = some bs) (p : List Nat)
    (hl : p.length < bs.length) (hp : bs.take p.length = p) : mpRead p = none := by
  have hbs : bs = wV v := by
    simp only [mpWrite, fitsV v hok, ↓reduceIte, Option.some.injEq] at hw
    exact hw.symm
  have hq : bs.drop p.length ≠ [] := by
    intro h
    have := congrArg List.length h
    simp only [List.length_drop, List.length_nil] at this
    omega
  have hpq : p ++ bs.drop p.length = wV v := by
    rw [← hbs]
    conv => lhs; arg 1; rw [← hp]
    exact List.take_append_drop _ _
  exact rdV_prefix_none v hok p _ hq hpq _

end SwimVerif.MsgPack
