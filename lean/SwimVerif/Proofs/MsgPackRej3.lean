/-
C16 — truncation, structural part: every strict prefix of a written value is rejected by the reader (with enough fuel),
by mutual induction over `Value` / `Attrs` / `Items`.
-/
import SwimVerif.Proofs.MsgPackRej2

namespace SwimVerif.MsgPack
open SwimVerif.Recon

def RejV (v : Value) : Prop :=
  mpOk v = true → ∀ p q, q ≠ [] → p ++ q = wV v → ∀ f, depthV v ≤ f → rdV f p = none

def RejA (a : Attrs) : Prop :=
  mpOkA a = true → ∀ p q, q ≠ [] → p ++ q = wA a → ∀ f, depthA a ≤ f → rdA f a.length p = none

def RejI (i : Items) : Prop :=
  mpOkI i = true →
    (∀ p q, q ≠ [] → p ++ q = wI false i → ∀ f, depthI i ≤ f → rdR f i.length p = none) ∧
    (allSlots i = true → ∀ p q, q ≠ [] → p ++ q = wI true i → ∀ f, depthI i ≤ f → rdM f i.length p = none)

theorem rdV_nil (f : Nat) : rdV f [] = none := by cases f <;> simp [rdV]
theorem rdB_nil (f : Nat) : rdB f [] = none := by cases f <;> simp [rdB]

theorem goodV' (v : Value) (hok : mpOk v = true) (f : Nat) (rest : List Nat) (hf : depthV v ≤ f) :
    rdV f (wV v ++ rest) = some (mpNorm v, rest) := ((goodV primRT nameRT lenRT v) hok).2 f rest hf

/-- One value off a strict prefix of `wV v ++ T`: rejected, or read completely leaving a strict prefix of `T`. -/
theorem stepRej (v : Value) (hok : mpOk v = true) (hr : RejV v) (f : Nat) (hf : depthV v ≤ f) (T p q : List Nat)
    (hq : q ≠ []) (h : p ++ q = wV v ++ T) :
    rdV f p = none ∨ ∃ p2, rdV f p = some (mpNorm v, p2) ∧ p2 ++ q = T := by
  rcases prefix_split hq h with ⟨q', hq', h1⟩ | ⟨p', h1, h2⟩
  · exact Or.inl (hr hok p q' hq' h1 f hf)
  · exact Or.inr ⟨p', by rw [h1, goodV' v hok f p' hf], h2⟩

theorem rejV_prim (v : Value) (hr : isRec v = false) : RejV v := by
  intro hok p q hq hpq f hf
  obtain ⟨m, r, hw, hm, -, -⟩ := primRT v hr hok
  have hd := depthV_prim v hr
  obtain ⟨f', rfl⟩ : ∃ f', f = f' + 1 := ⟨f - 1, by omega⟩
  cases p with
  | nil => exact rdV_nil _
  | cons m' p =>
    rw [hw] at hpq
    simp only [List.cons_append, List.cons.injEq] at hpq
    obtain ⟨rfl, hpq⟩ := hpq
    have := primRej v hr hok m' r hw p q hq hpq
    simp [rdV, hm, this]

/-- The body of a record. -/
theorem bodyRej (i : Items) (hoi : mpOkI i = true) (hil : i.length < U32) (ri : RejI i) (p q : List Nat) (hq : q ≠ [])
    (h : p ++ q = (if isMapBody i = true then wMapLen i.length else wArrLen i.length) ++ wI (isMapBody i) i)
    (f : Nat) (hf : depthI i + 1 ≤ f) : rdB f p = none := by
  obtain ⟨f', rfl⟩ : ∃ f', f = f' + 1 := ⟨f - 1, by omega⟩
  obtain ⟨⟨m1, r1, hw1, hm1, hrd1⟩, ⟨m2, r2, hw2, hm2, ha2, hrd2⟩⟩ := lenRT i.length hil
  cases p with
  | nil => exact rdB_nil _
  | cons m p =>
    by_cases hmb : isMapBody i = true
    · simp only [hmb, ↓reduceIte, hw1, List.cons_append, List.cons.injEq] at h
      obtain ⟨rfl, h⟩ := h
      rcases prefix_split hq h with ⟨q', hq', h1⟩ | ⟨p', h1, h2⟩
      · have := mapLen_rej i.length hil m r1 hw1 p q' hq' h1
        simp [rdB, hm1, this]
      · rw [h1, rdB_map hm1 (hrd1 _)]
        exact (ri hoi).2 (mapBody_allSlots hmb) p' q hq h2 f' (by omega)
    · simp only [Bool.not_eq_true] at hmb
      simp only [hmb, Bool.false_eq_true, ↓reduceIte, hw2, List.cons_append, List.cons.injEq] at h
      obtain ⟨rfl, h⟩ := h
      rcases prefix_split hq h with ⟨q', hq', h1⟩ | ⟨p', h1, h2⟩
      · have := arrLen_rej i.length hil m r2 hw2 p q' hq' h1
        simp [rdB, hm2, ha2, this]
      · rw [h1, rdB_arr hm2 ha2 (hrd2 _)]
        exact (ri hoi).1 p' q hq h2 f' (by omega)

mutual
theorem rejV : ∀ v, RejV v
  | .record a i => by
    intro hok p q hq hpq f hf
    simp only [mpOk, Bool.and_eq_true, decide_eq_true_eq] at hok
    obtain ⟨⟨⟨hal, hil⟩, hoa⟩, hoi⟩ := hok
    have ra := rejA a
    have ri := rejI i
    have ga := goodA primRT nameRT lenRT a hoa
    obtain ⟨⟨m, r, hw, hm, hrd⟩, -⟩ := lenRT a.length hal
    simp only [depthV] at hf
    obtain ⟨f', rfl⟩ : ∃ f', f = f' + 1 := ⟨f - 1, by omega⟩
    cases p with
    | nil => exact rdV_nil _
    | cons m' p =>
      simp only [wV, hw, List.cons_append, List.append_assoc, List.cons.injEq] at hpq
      obtain ⟨rfl, hpq⟩ := hpq
      rcases prefix_split hq hpq with ⟨q', hq', h1⟩ | ⟨p1, h1, h2⟩
      · have := mapLen_rej a.length hal m' r hw p q' hq' h1
        simp [rdV, hm, this]
      · rcases prefix_split hq h2 with ⟨q', hq', h3⟩ | ⟨p2, h3, h4⟩
        · have := ra hoa p1 q' hq' h3 f' (by omega)
          simp [rdV, hm, h1, hrd p1, this]
        · have hA := ga f' p2 (by omega)
          have hB := bodyRej i hoi hil ri p2 q hq h4 f' (by omega)
          rw [← h3] at hA
          simp [rdV, hm, h1, hrd p1, hA, hB]
  | .extant => rejV_prim _ rfl
  | .int _ _ => rejV_prim _ rfl
  | .float _ => rejV_prim _ rfl
  | .bool _ => rejV_prim _ rfl
  | .text _ => rejV_prim _ rfl
  | .data _ => rejV_prim _ rfl
theorem rejA : ∀ a, RejA a
  | .nil => by
    intro _ p q hq hpq
    simp only [wA, List.append_eq_nil_iff] at hpq
    exact absurd hpq.2 hq
  | .cons n v r => by
    intro hok p q hq hpq f hf
    simp only [mpOkA, Bool.and_eq_true, decide_eq_true_eq] at hok
    obtain ⟨⟨hnl, hov⟩, hor⟩ := hok
    have rv := rejV v
    have rr := rejA r
    simp only [depthA] at hf
    obtain ⟨f', rfl⟩ : ∃ f', f = f' + 1 := ⟨f - 1, by omega⟩
    simp only [wA] at hpq
    rcases prefix_split hq hpq with ⟨q', hq', h1⟩ | ⟨p1, h1, h2⟩
    · have := name_rej n hnl p q' hq' h1
      simp [rdA, Attrs.length, this]
    · have hN := nameRT n hnl p1
      rw [← h1] at hN
      rcases stepRej v hov rv f' (by omega) _ p1 q hq h2 with h3 | ⟨p2, h3, h4⟩
      · simp [rdA, Attrs.length, hN, h3]
      · have := rr hor p2 q hq h4 f' (by omega)
        simp [rdA, Attrs.length, hN, h3, this]
theorem rejI : ∀ i, RejI i
  | .nil => by
    intro _
    constructor
    · intro p q hq hpq
      simp only [wI, List.append_eq_nil_iff] at hpq
      exact absurd hpq.2 hq
    · intro _ p q hq hpq
      simp only [wI, List.append_eq_nil_iff] at hpq
      exact absurd hpq.2 hq
  | .val v r => by
    intro hok
    simp only [mpOkI, Bool.and_eq_true] at hok
    obtain ⟨hov, hor⟩ := hok
    have rv := rejV v
    have rr := rejI r
    obtain ⟨⟨m, t, hw, ha⟩, -⟩ := goodV primRT nameRT lenRT v hov
    constructor
    · intro p q hq hpq f hf
      simp only [depthI] at hf
      obtain ⟨f', rfl⟩ : ∃ f', f = f' + 1 := ⟨f - 1, by omega⟩
      simp only [wI] at hpq
      have hne : ¬ m = 146 := by intro h; rw [h] at ha; exact absurd ha (by decide)
      cases p with
      | nil => simp [rdR, Items.length]
      | cons m' p =>
        have hm' : m' = m := by
          rw [hw] at hpq
          simp only [List.cons_append, List.cons.injEq] at hpq
          exact hpq.1
        subst hm'
        rcases stepRej v hov rv f' (by omega) _ _ q hq hpq with h3 | ⟨p2, h3, h4⟩
        · simp [rdR, Items.length, hne, h3]
        · have := (rr hor).1 p2 q hq h4 f' (by omega)
          simp [rdR, Items.length, hne, h3, this]
    · intro h; simp [allSlots] at h
  | .slot k v r => by
    intro hok
    simp only [mpOkI, Bool.and_eq_true] at hok
    obtain ⟨⟨hok', hov⟩, hor⟩ := hok
    have rk := rejV k
    have rv := rejV v
    have rr := rejI r
    constructor
    · intro p q hq hpq f hf
      simp only [depthI] at hf
      obtain ⟨f', rfl⟩ : ∃ f', f = f' + 1 := ⟨f - 1, by omega⟩
      simp only [wI, Bool.false_eq_true, ↓reduceIte, List.cons_append, List.nil_append] at hpq
      cases p with
      | nil => simp [rdR, Items.length]
      | cons m' p =>
        simp only [List.cons_append, List.cons.injEq] at hpq
        obtain ⟨rfl, hpq⟩ := hpq
        rcases stepRej k hok' rk f' (by omega) _ p q hq hpq with h3 | ⟨p2, h3, h4⟩
        · simp [rdR, Items.length, h3]
        · rcases stepRej v hov rv f' (by omega) _ p2 q hq h4 with h5 | ⟨p3, h5, h6⟩
          · simp [rdR, Items.length, h3, h5]
          · have := (rr hor).1 p3 q hq h6 f' (by omega)
            simp [rdR, Items.length, h3, h5, this]
    · intro hs p q hq hpq f hf
      simp only [allSlots] at hs
      simp only [depthI] at hf
      obtain ⟨f', rfl⟩ : ∃ f', f = f' + 1 := ⟨f - 1, by omega⟩
      simp only [wI, ↓reduceIte, List.nil_append] at hpq
      rcases stepRej k hok' rk f' (by omega) _ p q hq hpq with h3 | ⟨p2, h3, h4⟩
      · simp [rdM, Items.length, h3]
      · rcases stepRej v hov rv f' (by omega) _ p2 q hq h4 with h5 | ⟨p3, h5, h6⟩
        · simp [rdM, Items.length, h3, h5]
        · have := (rr hor).2 hs p3 q hq h6 f' (by omega)
          simp [rdM, Items.length, h3, h5, this]
end

end SwimVerif.MsgPack
