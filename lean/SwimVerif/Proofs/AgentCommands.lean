/-
C14, agent-sent commands inside the agent task (`Model/CommandLane.lean`, `AdSide`): `command_buffer`, the lending of
the `CommandWriter` to `cmd_send_fut` (`check_cmds`), `CommandSendComplete` restarting the write while the buffer is
not empty; the commander id allocator (`CommanderIds::get_request`), `Register` / `Registered` records and how the
runtime resolves them (`resolveRun`). Every interleaving of lane requests, write completions, ad hoc write
completions and runtime reads.
-/
import SwimVerif.Proofs.CommandLane
import SwimVerif.Proofs.AssocList

set_option linter.unusedVariables false
set_option linter.unusedSimpArgs false
namespace SwimVerif.CL

/-! ### the runtime's resolution of a growing record stream -/

theorem resolveRun_snoc (rs : List Rec) (r : Rec) : resolveRun (rs ++ [r]) = stepResolve (resolveRun rs) r := by
  simp [resolveRun, List.foldl_append]

/-- a registration of ANOTHER id leaves an id's binding alone (the runtime never rebinds an id through a new one) -/
theorem stepResolve_register_other (st : List (Nat × Nat) × List (Bool × AdHoc)) (t id id' : Nat) (h : id ≠ id') :
    alGet (stepResolve st (.register t id)).1 id' = alGet st.1 id' := by
  simp only [stepResolve]; exact alGet_alSet_ne _ _ h

/-! ### the ad hoc side on its own -/

structure AdOk (a : AdSide) : Prop where
  /-- read by the runtime ++ in the channel ++ in the write in flight ++ in `command_buffer` = produced -/
  fifo : a.taken ++ a.chan ++ a.inflight ++ a.buf = a.issued
  /-- resolving the records as the runtime does gives every command the target it was MEANT for, in order -/
  res : (resolveRun a.issued).2 = a.intended
  /-- the runtime's id ↦ target bindings invert the allocator's address ↦ id table (so ids are unique per address) -/
  inv : ∀ t id, alGet a.assigned t = some id → alGet (resolveRun a.issued).1 id = some t
  lt : ∀ t id, alGet a.assigned t = some id → id < a.nextId
  /-- a commander the lifecycle holds carries the id allocated for its address -/
  cache : ∀ t id, alGet a.cache t = some id → alGet a.assigned t = some id
  /-- with the writer at home no write is in flight -/
  idle : a.home = true → a.inflight = []

theorem adok_init : AdOk {} := by
  constructor <;> simp [resolveRun]

theorem adok_send {a : AdSide} (h : AdOk a) (x : AdHoc) :
    AdOk (a.send x) ∧ (a.send x).intended = a.intended ++ [(false, x)] := by
  refine ⟨⟨?_, ?_, ?_, h.lt, h.cache, h.idle⟩, rfl⟩
  · show a.taken ++ a.chan ++ a.inflight ++ (a.buf ++ [.addressed x]) = a.issued ++ [.addressed x]
    rw [← List.append_assoc, h.fifo]
  · show (resolveRun (a.issued ++ [.addressed x])).2 = a.intended ++ [(false, x)]
    rw [resolveRun_snoc]; simp [stepResolve, h.res]
  · intro t id ht
    show alGet (resolveRun (a.issued ++ [.addressed x])).1 id = some t
    rw [resolveRun_snoc]; simpa [stepResolve] using h.inv t id ht

theorem adok_register {a : AdSide} (h : AdOk a) (t : Nat) :
    AdOk (a.register t).1 ∧ alGet (a.register t).1.assigned t = some (a.register t).2 ∧
    (a.register t).1.intended = a.intended ∧ (a.register t).1.cache = a.cache := by
  unfold AdSide.register
  cases ha : alGet a.assigned t with
  | some id =>
    simp only []
    refine ⟨⟨?_, ?_, ?_, h.lt, h.cache, h.idle⟩, ha, by first | rfl | trivial, by first | rfl | trivial⟩
    · show a.taken ++ a.chan ++ a.inflight ++ (a.buf ++ [.register t id]) = a.issued ++ [.register t id]
      rw [← List.append_assoc, h.fifo]
    · show (resolveRun (a.issued ++ [.register t id])).2 = a.intended
      rw [resolveRun_snoc]; simp [stepResolve, h.res]
    · intro t' id' ht'
      show alGet (resolveRun (a.issued ++ [.register t id])).1 id' = some t'
      rw [resolveRun_snoc]
      simp only [stepResolve]
      by_cases hid : id = id'
      · subst hid
        -- the id is bound to both `t` and `t'` by the runtime's table: they are the same address
        have h1 := h.inv t id ha
        have h2 := h.inv t' id ht'
        rw [h1] at h2
        rw [alGet_alSet_same]; exact h2
      · rw [alGet_alSet_ne _ _ hid]; exact h.inv t' id' ht'
  | none =>
    simp only []
    refine ⟨⟨?_, ?_, ?_, ?_, ?_, h.idle⟩, by simp, by first | rfl | trivial, by first | rfl | trivial⟩
    · show a.taken ++ a.chan ++ a.inflight ++ (a.buf ++ [.register t a.nextId]) = a.issued ++ [.register t a.nextId]
      rw [← List.append_assoc, h.fifo]
    · show (resolveRun (a.issued ++ [.register t a.nextId])).2 = a.intended
      rw [resolveRun_snoc]; simp [stepResolve, h.res]
    · intro t' id' ht'
      show alGet (resolveRun (a.issued ++ [.register t a.nextId])).1 id' = some t'
      rw [resolveRun_snoc]
      simp only [stepResolve]
      have ht2 : alGet (alSet a.assigned t a.nextId) t' = some id' := ht'
      by_cases htt : t = t'
      · subst htt
        rw [alGet_alSet_same] at ht2
        have : a.nextId = id' := Option.some.inj ht2
        subst this
        rw [alGet_alSet_same]
      · rw [alGet_alSet_ne _ _ htt] at ht2
        have hlt := h.lt t' id' ht2
        have hne : a.nextId ≠ id' := by omega
        rw [alGet_alSet_ne _ _ hne]; exact h.inv t' id' ht2
    · intro t' id' ht'
      have ht2 : alGet (alSet a.assigned t a.nextId) t' = some id' := ht'
      show id' < a.nextId + 1
      by_cases htt : t = t'
      · subst htt
        rw [alGet_alSet_same] at ht2
        have : a.nextId = id' := Option.some.inj ht2
        omega
      · rw [alGet_alSet_ne _ _ htt] at ht2
        have := h.lt t' id' ht2; omega
    · intro t' id' hc
      show alGet (alSet a.assigned t a.nextId) t' = some id'
      have hold := h.cache t' id' hc
      by_cases htt : t = t'
      · subst htt; rw [ha] at hold; exact absurd hold (by simp)
      · rw [alGet_alSet_ne _ _ htt]; exact hold

theorem adok_sendById {a : AdSide} (h : AdOk a) (id : Nat) (x : AdHoc) (hid : alGet a.assigned x.target = some id) :
    AdOk (a.sendById id x) ∧ (a.sendById id x).intended = a.intended ++ [(true, x)] := by
  have hb := h.inv x.target id hid
  refine ⟨⟨?_, ?_, ?_, h.lt, h.cache, h.idle⟩, rfl⟩
  · show a.taken ++ a.chan ++ a.inflight ++ (a.buf ++ [.byId id x.value x.ow]) = a.issued ++ [.byId id x.value x.ow]
    rw [← List.append_assoc, h.fifo]
  · show (resolveRun (a.issued ++ [.byId id x.value x.ow])).2 = a.intended ++ [(true, x)]
    rw [resolveRun_snoc]; simp [stepResolve, hb, h.res]
  · intro t id' ht
    show alGet (resolveRun (a.issued ++ [.byId id x.value x.ow])).1 id' = some t
    rw [resolveRun_snoc]; simpa [stepResolve, hb] using h.inv t id' ht

/-- **one send through a commander is resolved by the runtime to the commander's own target** -/
theorem adok_csend {a : AdSide} (h : AdOk a) (re : Bool) (x : AdHoc) :
    AdOk (a.csend re x) ∧ (a.csend re x).intended = a.intended ++ [(true, x)] := by
  unfold AdSide.csend
  cases hc : (if re = true then none else alGet a.cache x.target) with
  | some id =>
    simp only []
    have hcache : alGet a.cache x.target = some id := by
      cases re <;> simp at hc; exact hc
    exact adok_sendById h id x (h.cache _ _ hcache)
  | none =>
    simp only []
    obtain ⟨k1, k2, k3, k4⟩ := adok_register h x.target
    have hok : AdOk { (a.register x.target).1 with cache := alSet (a.register x.target).1.cache x.target (a.register x.target).2 } := by
      refine ⟨k1.fifo, k1.res, k1.inv, k1.lt, ?_, k1.idle⟩
      intro t id hcx
      have hcx' : alGet (alSet (a.register x.target).1.cache x.target (a.register x.target).2) t = some id := hcx
      by_cases ht : x.target = t
      · subst ht
        rw [alGet_alSet_same] at hcx'
        rw [← Option.some.inj hcx']; exact k2
      · rw [alGet_alSet_ne _ _ ht] at hcx'
        exact k1.cache t id hcx'
    obtain ⟨r1, r2⟩ := adok_sendById hok (a.register x.target).2 x k2
    refine ⟨r1, ?_⟩
    rw [r2]; show (a.register x.target).1.intended ++ [(true, x)] = _
    rw [k3]

theorem adok_sends {a : AdSide} (h : AdOk a) (xs : List AdHoc) :
    AdOk (xs.foldl AdSide.send a) ∧ (xs.foldl AdSide.send a).intended = a.intended ++ xs.map (fun x => (false, x)) := by
  induction xs generalizing a with
  | nil => exact ⟨h, by simp⟩
  | cons x rest ih =>
    obtain ⟨h1, h2⟩ := adok_send h x
    obtain ⟨h3, h4⟩ := ih h1
    exact ⟨h3, by rw [List.foldl_cons, h4, h2]; simp⟩

theorem adok_csends (re : AdHoc → Bool) {a : AdSide} (h : AdOk a) (xs : List AdHoc) :
    AdOk (xs.foldl (fun a x => a.csend (re x) x) a) ∧
    (xs.foldl (fun a x => a.csend (re x) x) a).intended = a.intended ++ xs.map (fun x => (true, x)) := by
  induction xs generalizing a with
  | nil => exact ⟨h, by simp⟩
  | cons x rest ih =>
    obtain ⟨h1, h2⟩ := adok_csend h (re x) x
    obtain ⟨h3, h4⟩ := ih h1
    exact ⟨h3, by rw [List.foldl_cons, h4, h2]; simp⟩

theorem adok_adHandler (hd : Handler) {a : AdSide} (h : AdOk a) (w : Nat) :
    AdOk (adHandler hd a w) ∧ (adHandler hd a w).intended = a.intended ++ hd.sentBy w := by
  unfold adHandler Handler.sentBy
  obtain ⟨h1, h2⟩ := adok_sends h (hd.sends w)
  obtain ⟨h3, h4⟩ := adok_csends hd.recreate h1 (hd.csends w)
  exact ⟨h3, by rw [h4, h2, List.append_assoc]⟩

theorem adok_adAfter (hd : Handler) {a : AdSide} (h : AdOk a) (v : Nat) :
    AdOk (hd.adAfter a v) ∧ (hd.adAfter a v).intended = a.intended ++ hd.intendedBy v := by
  unfold Handler.adAfter Handler.intendedBy
  cases hs : hd.selfCmd v with
  | none =>
    obtain ⟨h1, h2⟩ := adok_adHandler hd h v
    exact ⟨h1, by rw [h2]; simp⟩
  | some u =>
    obtain ⟨h1, h2⟩ := adok_adHandler hd h u
    obtain ⟨h3, h4⟩ := adok_adHandler hd h1 v
    exact ⟨h3, by rw [h4, h2, List.append_assoc]⟩

/-- moving records between buffer, write in flight, channel and the runtime changes nothing else -/
theorem adok_move {a a' : AdSide} (h : AdOk a) (hi : a'.issued = a.issued) (hint : a'.intended = a.intended)
    (ha : a'.assigned = a.assigned) (hn : a'.nextId = a.nextId) (hc : a'.cache = a.cache)
    (hf : a'.taken ++ a'.chan ++ a'.inflight ++ a'.buf = a.taken ++ a.chan ++ a.inflight ++ a.buf)
    (hidle : a'.home = true → a'.inflight = []) : AdOk a' := by
  refine ⟨by rw [hf, hi]; exact h.fifo, by rw [hi, hint]; exact h.res, ?_, ?_, ?_, hidle⟩
  · intro t id; rw [ha, hi]; exact h.inv t id
  · intro t id; rw [ha, hn]; exact h.lt t id
  · intro t id; rw [hc, ha]; exact h.cache t id

/-! ### inside the agent task -/

structure AdPre (h : Handler) (s : St) : Prop where
  ok : AdOk s.ad
  /-- what was sent is what the received commands make the handlers send -/
  meant : s.ad.intended = (validCmds s.received).flatMap h.intendedBy

structure AdInv (h : Handler) (s : St) : Prop extends AdPre h s where
  /-- buffered records ⇒ the writer is away: a `CommandSendComplete` is due and will restart the write -/
  owed : s.ad.buf ≠ [] → s.ad.home = false

theorem adinv_init (h : Handler) : AdInv h {} :=
  ⟨⟨adok_init, rfl⟩, fun hb => absurd rfl hb⟩

@[simp] theorem retain_ad (s : St) : (retain s).ad = s.ad := rfl
@[simp] theorem retain_received' (s : St) : (retain s).received = s.received := rfl

theorem adpre_retain {h : Handler} {s : St} (hp : AdPre h s) : AdPre h (retain s) := ⟨hp.ok, hp.meant⟩

/-- `check_cmds` re-establishes "buffered ⇒ writer away" -/
theorem adinv_checkCmds {h : Handler} {s : St} (hp : AdPre h s) : AdInv h (checkCmds s) := by
  unfold checkCmds
  by_cases hc : (!s.ad.buf.isEmpty && s.ad.home) = true
  · rw [if_pos hc]
    have hh : s.ad.home = true := by simp at hc; exact hc.2
    refine ⟨⟨adok_move hp.ok rfl rfl rfl rfl rfl ?_ (fun hx => by simp at hx), hp.meant⟩, fun hb => rfl⟩
    show s.ad.taken ++ s.ad.chan ++ s.ad.buf ++ [] = s.ad.taken ++ s.ad.chan ++ s.ad.inflight ++ s.ad.buf
    rw [hp.ok.idle hh]; simp
  · rw [if_neg hc]
    refine ⟨hp, fun hb => ?_⟩
    cases hh : s.ad.home with
    | false => rfl
    | true =>
      exfalso; apply hc
      cases hx : s.ad.buf with
      | nil => exact absurd hx hb
      | cons a r => simp [hh]

theorem adpre_handleEv (h : Handler) {s : St} (hi : AdInv h s) (e : Ev) : AdPre h (handleEv h s e) := by
  have hp := hi.toAdPre
  cases e with
  | read l => exact hp
  | readCmd => exact hp
  | writeDone l =>
    cases l <;> simp only [handleEv] <;> split <;> exact ⟨hp.ok, hp.meant⟩
  | sync l r => cases l <;> exact ⟨hp.ok, hp.meant⟩
  | command l b =>
    cases l with
    | sup => exact hp
    | cmd =>
      cases b with
      | bad =>
        refine ⟨hp.ok, ?_⟩
        show s.ad.intended = (validCmds (s.received ++ [Body.bad])).flatMap h.intendedBy
        rw [validCmds_append]; simpa [validCmds] using hp.meant
      | ok v =>
        show AdPre h (doCommand h { s with received := s.received ++ [Body.ok v] } v)
        rw [doCommand_eq]
        obtain ⟨k1, k2⟩ := adok_adAfter h hp.ok v
        refine ⟨k1, ?_⟩
        show (h.adAfter s.ad v).intended = (validCmds (s.received ++ [Body.ok v])).flatMap h.intendedBy
        rw [k2, validCmds_append, hp.meant]; simp [validCmds]
  | cmdSendDone =>
    simp only [handleEv]
    by_cases hh : s.ad.home = true
    · rw [if_pos hh]; exact hp
    · rw [if_neg hh]
      by_cases hb : s.ad.buf.isEmpty = true
      · rw [if_pos hb]
        have hb' : s.ad.buf = [] := by simpa using hb
        refine ⟨adok_move hp.ok rfl rfl rfl rfl rfl ?_ (fun _ => rfl), hp.meant⟩
        show s.ad.taken ++ (s.ad.chan ++ s.ad.inflight) ++ [] ++ s.ad.buf
          = s.ad.taken ++ s.ad.chan ++ s.ad.inflight ++ s.ad.buf
        simp
      · rw [if_neg hb]
        refine ⟨adok_move hp.ok rfl rfl rfl rfl rfl ?_ (fun hx => absurd hx hh), hp.meant⟩
        show s.ad.taken ++ (s.ad.chan ++ s.ad.inflight) ++ s.ad.buf ++ []
          = s.ad.taken ++ s.ad.chan ++ s.ad.inflight ++ s.ad.buf
        simp

/-- events after which `check_cmds` is NOT called leave nothing buffered with the writer at home -/
theorem owed_handleEv (h : Handler) {s : St} (hi : AdInv h s) (e : Ev) (hr : e.runsHandler = false) :
    (handleEv h s e).ad.buf ≠ [] → (handleEv h s e).ad.home = false := by
  cases e with
  | read l => exact hi.owed
  | readCmd => exact hi.owed
  | writeDone l => cases l <;> simp only [handleEv] <;> split <;> exact hi.owed
  | sync l r => simp [Ev.runsHandler] at hr
  | command l b =>
    cases l with
    | sup => simp [Ev.runsHandler] at hr
    | cmd =>
      cases b with
      | bad => exact hi.owed
      | ok v => simp [Ev.runsHandler] at hr
  | cmdSendDone =>
    simp only [handleEv]
    by_cases hh : s.ad.home = true
    · rw [if_pos hh]; exact hi.owed
    · rw [if_neg hh]
      by_cases hb : s.ad.buf.isEmpty = true
      · rw [if_pos hb]
        have hb' : s.ad.buf = [] := by simpa using hb
        intro hx; exact absurd hb' hx
      · rw [if_neg hb]
        intro hx; exact absurd rfl hx

theorem adinv_step (h : Handler) {s : St} (hi : AdInv h s) (e : Ev) : AdInv h (step h s e) := by
  cases e with
  | read l =>
    cases l <;> simp only [step, readLane] <;> split <;>
      exact ⟨⟨hi.ok, hi.meant⟩, hi.owed⟩
  | readCmd =>
    simp only [step, readCmd]
    cases hc : s.ad.chan with
    | nil => simpa [hc] using hi
    | cons a rest =>
      refine ⟨⟨adok_move hi.ok rfl rfl rfl rfl rfl ?_ hi.ok.idle, hi.meant⟩, hi.owed⟩
      show (s.ad.taken ++ [a]) ++ rest ++ s.ad.inflight ++ s.ad.buf = s.ad.taken ++ s.ad.chan ++ s.ad.inflight ++ s.ad.buf
      rw [hc]; simp
  | writeDone l =>
    have hp := adpre_handleEv h hi (.writeDone l)
    have ho := owed_handleEv h hi (.writeDone l) rfl
    exact ⟨adpre_retain hp, ho⟩
  | cmdSendDone =>
    have hp := adpre_handleEv h hi .cmdSendDone
    have ho := owed_handleEv h hi .cmdSendDone rfl
    exact ⟨adpre_retain hp, ho⟩
  | sync l r =>
    have hk := adinv_checkCmds (adpre_handleEv h hi (.sync l r))
    exact ⟨adpre_retain hk.toAdPre, hk.owed⟩
  | command l b =>
    cases l with
    | sup =>
      have hk := adinv_checkCmds (adpre_handleEv h hi (.command .sup b))
      exact ⟨adpre_retain hk.toAdPre, hk.owed⟩
    | cmd =>
      cases b with
      | bad =>
        have hp := adpre_handleEv h hi (.command .cmd .bad)
        have ho := owed_handleEv h hi (.command .cmd .bad) rfl
        exact ⟨adpre_retain hp, ho⟩
      | ok v =>
        have hk := adinv_checkCmds (adpre_handleEv h hi (.command .cmd (.ok v)))
        exact ⟨adpre_retain hk.toAdPre, hk.owed⟩

theorem adinv_run (h : Handler) (evs : List Ev) : ∀ (s : St), AdInv h s → AdInv h (run h s evs) := by
  induction evs with
  | nil => intro s hi; exact hi
  | cons e rest ih => intro s hi; exact ih _ (adinv_step h hi e)

/-- commands for one target among resolved commands -/
def adFor (t : Nat) (as : List (Bool × AdHoc)) : List (Bool × AdHoc) := as.filter (fun a => a.2.target = t)

/-- the commands that went through a commander -/
def viaCommander (as : List (Bool × AdHoc)) : List AdHoc := (as.filter (·.1)).map (·.2)

/-- the commands a handler sends through commanders for one received command -/
def Handler.csentBy (h : Handler) (v : Nat) : List AdHoc :=
  (match h.selfCmd v with | some u => h.csends u | none => []) ++ h.csends v

theorem viaCommander_append (a b : List (Bool × AdHoc)) : viaCommander (a ++ b) = viaCommander a ++ viaCommander b := by
  simp [viaCommander]

theorem viaCommander_sentBy (h : Handler) (w : Nat) : viaCommander (h.sentBy w) = h.csends w := by
  unfold viaCommander Handler.sentBy
  rw [List.filter_append, List.map_append]
  have h1 : ∀ xs : List AdHoc, ((xs.map (fun x => (false, x))).filter (·.1)) = [] := by
    intro xs; induction xs with
    | nil => rfl
    | cons x r ih => simp [List.filter, ih]
  have h2 : ∀ xs : List AdHoc, ((xs.map (fun x => (true, x))).filter (·.1)).map (·.2) = xs := by
    intro xs; induction xs with
    | nil => rfl
    | cons x r ih => simp [List.filter, ih]
  rw [h1, h2]; rfl

theorem viaCommander_intendedBy (h : Handler) (v : Nat) : viaCommander (h.intendedBy v) = h.csentBy v := by
  unfold Handler.intendedBy Handler.csentBy
  rw [viaCommander_append, viaCommander_sentBy]
  cases h.selfCmd v with
  | none => rfl
  | some u => simp only []; rw [viaCommander_sentBy]

theorem viaCommander_flatMap (h : Handler) (vs : List Nat) :
    viaCommander (vs.flatMap h.intendedBy) = vs.flatMap h.csentBy := by
  induction vs with
  | nil => rfl
  | cons v rest ih => simp only [List.flatMap_cons]; rw [viaCommander_append, viaCommander_intendedBy, ih]

end SwimVerif.CL
