/-
C14, agent-sent commands inside the agent task (`Model/CommandLane.lean`, `AdSide`): `command_buffer`, the lending of
the `CommandWriter` to `cmd_send_fut` (`check_cmds`), `CommandSendComplete` restarting the write while the buffer is
not empty. Every interleaving of lane requests, write completions, ad hoc write completions and runtime reads.
-/
import SwimVerif.Proofs.CommandLane

set_option linter.unusedVariables false
set_option linter.unusedSimpArgs false
namespace SwimVerif.CL

structure AdPre (h : Handler) (s : St) : Prop where
  /-- read by the runtime ++ in the channel ++ in the write in flight ++ in `command_buffer` = issued -/
  fifo : s.ad.taken ++ s.ad.chan ++ s.ad.inflight ++ s.ad.buf = s.ad.issued
  /-- what was issued is what the received commands make the handlers send -/
  issued : s.ad.issued = (validCmds s.received).flatMap h.issuedBy
  /-- with the writer at home no write is in flight -/
  idle : s.ad.home = true → s.ad.inflight = []

structure AdInv (h : Handler) (s : St) : Prop extends AdPre h s where
  /-- buffered commands ⇒ the writer is away: a `CommandSendComplete` is due and will restart the write -/
  owed : s.ad.buf ≠ [] → s.ad.home = false

theorem adinv_init (h : Handler) : AdInv h {} :=
  ⟨⟨rfl, rfl, fun _ => rfl⟩, fun hb => absurd rfl hb⟩

@[simp] theorem retain_ad (s : St) : (retain s).ad = s.ad := rfl
@[simp] theorem retain_received' (s : St) : (retain s).received = s.received := rfl

theorem adpre_retain {h : Handler} {s : St} (hp : AdPre h s) : AdPre h (retain s) := ⟨hp.fifo, hp.issued, hp.idle⟩

/-- `check_cmds` re-establishes "buffered ⇒ writer away" -/
theorem adinv_checkCmds {h : Handler} {s : St} (hp : AdPre h s) : AdInv h (checkCmds s) := by
  unfold checkCmds
  by_cases hc : (!s.ad.buf.isEmpty && s.ad.home) = true
  · rw [if_pos hc]
    have hh : s.ad.home = true := by simp at hc; exact hc.2
    refine ⟨⟨?_, hp.issued, fun hx => by simp at hx⟩, fun hb => rfl⟩
    show s.ad.taken ++ s.ad.chan ++ s.ad.buf ++ [] = s.ad.issued
    rw [← hp.fifo, hp.idle hh]; simp
  · rw [if_neg hc]
    refine ⟨hp, fun hb => ?_⟩
    cases hh : s.ad.home with
    | false => rfl
    | true =>
      exfalso; apply hc
      cases hx : s.ad.buf with
      | nil => exact absurd hx hb
      | cons a r => simp [hh]

/-- the event proper keeps the FIFO facts (it may leave commands buffered with the writer at home: `check_cmds`
follows whenever a handler ran) -/
theorem adpre_handleEv (h : Handler) {s : St} (hi : AdInv h s) (e : Ev) : AdPre h (handleEv h s e) := by
  have hp := hi.toAdPre
  cases e with
  | read l => exact hp
  | readCmd => exact hp
  | writeDone l =>
    cases l <;> simp only [handleEv] <;> split <;> exact ⟨hp.fifo, hp.issued, hp.idle⟩
  | sync l r => cases l <;> exact ⟨hp.fifo, hp.issued, hp.idle⟩
  | command l b =>
    cases l with
    | sup => exact hp
    | cmd =>
      cases b with
      | bad =>
        refine ⟨hp.fifo, ?_, hp.idle⟩
        show s.ad.issued = (validCmds (s.received ++ [Body.bad])).flatMap h.issuedBy
        rw [validCmds_append]; simpa [validCmds] using hp.issued
      | ok v =>
        show AdPre h (doCommand h { s with received := s.received ++ [Body.ok v] } v)
        rw [doCommand_eq]
        refine ⟨?_, ?_, hp.idle⟩
        · show s.ad.taken ++ s.ad.chan ++ s.ad.inflight ++ (s.ad.buf ++ h.issuedBy v) = s.ad.issued ++ h.issuedBy v
          rw [← List.append_assoc, hp.fifo]
        · show s.ad.issued ++ h.issuedBy v = (validCmds (s.received ++ [Body.ok v])).flatMap h.issuedBy
          rw [validCmds_append, hp.issued]; simp [validCmds]
  | cmdSendDone =>
    simp only [handleEv]
    by_cases hh : s.ad.home = true
    · rw [if_pos hh]; exact hp
    · rw [if_neg hh]
      by_cases hb : s.ad.buf.isEmpty = true
      · rw [if_pos hb]
        have hb' : s.ad.buf = [] := by simpa using hb
        refine ⟨?_, hp.issued, fun _ => rfl⟩
        show s.ad.taken ++ (s.ad.chan ++ s.ad.inflight) ++ [] ++ s.ad.buf = s.ad.issued
        rw [← hp.fifo]; simp
      · rw [if_neg hb]
        refine ⟨?_, hp.issued, fun hx => absurd hx hh⟩
        show s.ad.taken ++ (s.ad.chan ++ s.ad.inflight) ++ s.ad.buf ++ [] = s.ad.issued
        rw [← hp.fifo]; simp

/-- events after which `check_cmds` is NOT called leave nothing buffered with the writer at home -/
theorem owed_handleEv (h : Handler) {s : St} (hi : AdInv h s) (e : Ev) (hr : e.runsHandler = false) :
    (handleEv h s e).ad.buf ≠ [] → (handleEv h s e).ad.home = false := by
  cases e with
  | read l => exact hi.owed
  | readCmd => exact hi.owed
  | writeDone l => cases l <;> simp only [handleEv] <;> split <;> exact hi.owed
  | sync l r => simp [Ev.runsHandler] at hr
  | command l b =>
    cases l with
    | sup => simp [Ev.runsHandler] at hr
    | cmd =>
      cases b with
      | bad => exact hi.owed
      | ok v => simp [Ev.runsHandler] at hr
  | cmdSendDone =>
    simp only [handleEv]
    by_cases hh : s.ad.home = true
    · rw [if_pos hh]; exact hi.owed
    · rw [if_neg hh]
      by_cases hb : s.ad.buf.isEmpty = true
      · rw [if_pos hb]
        have hb' : s.ad.buf = [] := by simpa using hb
        intro hx; exact absurd hb' hx
      · rw [if_neg hb]
        intro hx; exact absurd rfl hx

theorem adinv_step (h : Handler) {s : St} (hi : AdInv h s) (e : Ev) : AdInv h (step h s e) := by
  cases e with
  | read l =>
    cases l <;> simp only [step, readLane] <;> split <;>
      exact ⟨⟨hi.fifo, hi.issued, hi.idle⟩, hi.owed⟩
  | readCmd =>
    simp only [step, readCmd]
    cases hc : s.ad.chan with
    | nil => simpa [hc] using hi
    | cons a rest =>
      refine ⟨⟨?_, hi.issued, hi.idle⟩, hi.owed⟩
      show (s.ad.taken ++ [a]) ++ rest ++ s.ad.inflight ++ s.ad.buf = s.ad.issued
      rw [← hi.fifo, hc]; simp
  | writeDone l =>
    have hp := adpre_handleEv h hi (.writeDone l)
    have ho := owed_handleEv h hi (.writeDone l) rfl
    exact ⟨adpre_retain hp, ho⟩
  | cmdSendDone =>
    have hp := adpre_handleEv h hi .cmdSendDone
    have ho := owed_handleEv h hi .cmdSendDone rfl
    exact ⟨adpre_retain hp, ho⟩
  | sync l r =>
    have hk := adinv_checkCmds (adpre_handleEv h hi (.sync l r))
    exact ⟨adpre_retain hk.toAdPre, hk.owed⟩
  | command l b =>
    cases l with
    | sup =>
      have hk := adinv_checkCmds (adpre_handleEv h hi (.command .sup b))
      exact ⟨adpre_retain hk.toAdPre, hk.owed⟩
    | cmd =>
      cases b with
      | bad =>
        have hp := adpre_handleEv h hi (.command .cmd .bad)
        have ho := owed_handleEv h hi (.command .cmd .bad) rfl
        exact ⟨adpre_retain hp, ho⟩
      | ok v =>
        have hk := adinv_checkCmds (adpre_handleEv h hi (.command .cmd (.ok v)))
        exact ⟨adpre_retain hk.toAdPre, hk.owed⟩

theorem adinv_run (h : Handler) (evs : List Ev) : ∀ (s : St), AdInv h s → AdInv h (run h s evs) := by
  induction evs with
  | nil => intro s hi; exact hi
  | cons e rest ih => intro s hi; exact ih _ (adinv_step h hi e)

/-- commands for one target among ad hoc commands -/
def adFor (t : Nat) (as : List AdHoc) : List AdHoc := as.filter (fun a => a.target = t)

theorem adFor_append (t : Nat) (a b : List AdHoc) : adFor t (a ++ b) = adFor t a ++ adFor t b := by
  simp [adFor]

end SwimVerif.CL
