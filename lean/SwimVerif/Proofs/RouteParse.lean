/-
C18, T2 (parser state machine ↔ segment model), direction parse ∘ render = id:
running `RoutePattern::parse`'s automaton over the rendering of a pattern value rebuilds the value.
-/
import SwimVerif.Proofs.RouteRender

set_option linter.unusedSimpArgs false
set_option linter.unusedVariables false
namespace SwimVerif.Route

/-! ### runs of ordinary characters -/

theorem loop_literal (x rest acc : Bytes) (st off : Nat) (sch : Option Bytes) (ab : Bool) (sg : List Segment)
    (hx : 47 ∉ x) :
    parseLoop ⟨.literal st acc, sch, ab, sg⟩ off (x ++ rest) =
      parseLoop ⟨.literal st (acc ++ x), sch, ab, sg⟩ (off + x.length) rest := by
  induction x generalizing acc off with
  | nil => simp
  | cons c x ih =>
    have hc : c ≠ 47 := fun e => hx (by simp [e])
    have hx' : 47 ∉ x := fun e => hx (by simp [e])
    have e1 : acc ++ [c] ++ x = acc ++ c :: x := by simp
    have e2 : off + 1 + x.length = off + (c :: x).length := by simp only [List.length_cons]; omega
    simp only [List.cons_append, parseLoop, transition, hc, ↓reduceIte]
    rw [ih _ _ hx', e1, e2]

theorem loop_parameter (x rest acc : Bytes) (st off : Nat) (sch : Option Bytes) (ab : Bool) (sg : List Segment)
    (hx : 47 ∉ x) (hy : 58 ∉ x) :
    parseLoop ⟨.parameter st acc, sch, ab, sg⟩ off (x ++ rest) =
      parseLoop ⟨.parameter st (acc ++ x), sch, ab, sg⟩ (off + x.length) rest := by
  induction x generalizing acc off with
  | nil => simp
  | cons c x ih =>
    have hc : c ≠ 47 := fun e => hx (by simp [e])
    have hc2 : c ≠ 58 := fun e => hy (by simp [e])
    have hx' : 47 ∉ x := fun e => hx (by simp [e])
    have hy' : 58 ∉ x := fun e => hy (by simp [e])
    have e1 : acc ++ [c] ++ x = acc ++ c :: x := by simp
    have e2 : off + 1 + x.length = off + (c :: x).length := by simp only [List.length_cons]; omega
    simp only [List.cons_append, parseLoop, transition, hc, hc2, ↓reduceIte]
    rw [ih _ _ hx' hy', e1, e2]

theorem loop_schemeOrLiteral (x rest acc : Bytes) (st off : Nat) (sch : Option Bytes) (ab : Bool)
    (sg : List Segment) (hx : 47 ∉ x) (hy : 58 ∉ x) :
    parseLoop ⟨.schemeOrLiteral st acc, sch, ab, sg⟩ off (x ++ rest) =
      parseLoop ⟨.schemeOrLiteral st (acc ++ x), sch, ab, sg⟩ (off + x.length) rest := by
  induction x generalizing acc off with
  | nil => simp
  | cons c x ih =>
    have hc : c ≠ 47 := fun e => hx (by simp [e])
    have hc2 : c ≠ 58 := fun e => hy (by simp [e])
    have hx' : 47 ∉ x := fun e => hx (by simp [e])
    have hy' : 58 ∉ x := fun e => hy (by simp [e])
    have e1 : acc ++ [c] ++ x = acc ++ c :: x := by simp
    have e2 : off + 1 + x.length = off + (c :: x).length := by simp only [List.length_cons]; omega
    simp only [List.cons_append, parseLoop, transition, hc, hc2, ↓reduceIte]
    rw [ih _ _ hx' hy', e1, e2]

/-! ### one segment -/

/-- The automaton state while segment `s` (started at `off`) is complete but not yet closed. -/
def curState (off : Nat) : Seg → PState
  | .lit l => .literal off l
  | .param n => .parameter off n

/-- The `Segment` pushed when it is closed. -/
def curSegment (off : Nat) : Seg → Segment
  | .lit l => ⟨off, l, false⟩
  | .param n => ⟨off + 1, n, true⟩

theorem toSeg_curSegment (off : Nat) (s : Seg) : (curSegment off s).toSeg = s := by
  cases s <;> simp [curSegment, Segment.toSeg]

/-- What `renderable` says about one segment, as propositions. -/
structure SegGood (s : Seg) : Prop where
  ok : s.structOk = true
  nc : s.noColonStart = true

theorem lit_good {l : Bytes} (h : SegGood (.lit l)) :
    ∃ c l', l = c :: l' ∧ c ≠ 47 ∧ c ≠ 58 ∧ 47 ∉ l' := by
  obtain ⟨h1, h2⟩ := h
  cases l with
  | nil => simp [Seg.structOk] at h1
  | cons c l' =>
    refine ⟨c, l', rfl, ?_, ?_, ?_⟩
    · intro e; subst e; simp [Seg.structOk] at h1
    · intro e; subst e; simp [Seg.noColonStart] at h2
    · intro e; simp [Seg.structOk, e] at h1

theorem param_good {n : Bytes} (h : SegGood (.param n)) : n ≠ [] ∧ 47 ∉ n ∧ 58 ∉ n := by
  obtain ⟨h1, _⟩ := h
  simp only [Seg.structOk, Bool.and_eq_true, Bool.not_eq_eq_eq_not, Bool.not_true] at h1
  refine ⟨?_, ?_, ?_⟩
  · intro e; simp [e] at h1
  · intro e; simp [e] at h1
  · intro e; simp [e] at h1

theorem seg_from_segmentStart (s : Seg) (hs : SegGood s) (rest : Bytes) (off : Nat) (sch : Option Bytes)
    (ab : Bool) (sg : List Segment) :
    parseLoop ⟨.segmentStart, sch, ab, sg⟩ off (s.text ++ rest) =
      parseLoop ⟨curState off s, sch, ab, sg⟩ (off + s.text.length) rest := by
  cases s with
  | lit l =>
    obtain ⟨c, l', rfl, h47, h58, hl'⟩ := lit_good hs
    simp only [Seg.text, List.cons_append, parseLoop, transition, h47, h58, ↓reduceIte, curState]
    rw [loop_literal l' rest [c] off (off + 1) sch ab sg hl']
    simp only [List.length_cons, List.singleton_append]
    rw [show off + 1 + l'.length = off + (l'.length + 1) by omega]
  | param n =>
    obtain ⟨_, h47, h58⟩ := param_good hs
    simp only [Seg.text, List.cons_append, parseLoop, transition, ↓reduceIte, curState]
    rw [loop_parameter n rest [] off (off + 1) sch ab sg h47 h58]
    simp only [List.length_cons, List.nil_append]
    rw [show off + 1 + n.length = off + (n.length + 1) by omega]

theorem seg_from_afterScheme (s : Seg) (hs : SegGood s) (rest : Bytes) (off : Nat) (sch : Option Bytes)
    (ab : Bool) (sg : List Segment) :
    parseLoop ⟨.afterScheme, sch, ab, sg⟩ off (s.text ++ rest) =
      parseLoop ⟨curState off s, sch, false, sg⟩ (off + s.text.length) rest := by
  cases s with
  | lit l =>
    obtain ⟨c, l', rfl, h47, h58, hl'⟩ := lit_good hs
    simp only [Seg.text, List.cons_append, parseLoop, transition, h47, h58, ↓reduceIte, curState]
    rw [loop_literal l' rest [c] off (off + 1) sch false sg hl']
    simp only [List.length_cons, List.singleton_append]
    rw [show off + 1 + l'.length = off + (l'.length + 1) by omega]
  | param n =>
    obtain ⟨_, h47, h58⟩ := param_good hs
    simp only [Seg.text, List.cons_append, parseLoop, transition, ↓reduceIte, curState]
    have : (58 : Nat) ≠ 47 := by decide
    simp only [this, ↓reduceIte]
    rw [loop_parameter n rest [] off (off + 1) sch false sg h47 h58]
    simp only [List.length_cons, List.nil_append]
    rw [show off + 1 + n.length = off + (n.length + 1) by omega]

/-- First segment of a relative scheme-less pattern that does not start with a letter. -/
theorem seg_from_start (s : Seg) (hs : SegGood s) (hna : ∀ c l', s = .lit (c :: l') → isAlpha c = false)
    (rest : Bytes) (off : Nat) (sch : Option Bytes) (ab : Bool) (sg : List Segment) :
    parseLoop ⟨.start, sch, ab, sg⟩ off (s.text ++ rest) =
      parseLoop ⟨curState off s, sch, false, sg⟩ (off + s.text.length) rest := by
  cases s with
  | lit l =>
    obtain ⟨c, l', rfl, h47, h58, hl'⟩ := lit_good hs
    have ha := hna c l' rfl
    simp only [Seg.text, List.cons_append, parseLoop, transition, h47, h58, ha, ↓reduceIte, curState]
    simp only [Bool.false_eq_true, ↓reduceIte]
    rw [loop_literal l' rest [c] off (off + 1) sch false sg hl']
    simp only [List.length_cons, List.singleton_append]
    rw [show off + 1 + l'.length = off + (l'.length + 1) by omega]
  | param n =>
    obtain ⟨_, h47, h58⟩ := param_good hs
    simp only [Seg.text, List.cons_append, parseLoop, transition, ↓reduceIte, curState]
    have : (58 : Nat) ≠ 47 := by decide
    simp only [this, ↓reduceIte]
    rw [loop_parameter n rest [] off (off + 1) sch false sg h47 h58]
    simp only [List.length_cons, List.nil_append]
    rw [show off + 1 + n.length = off + (n.length + 1) by omega]

theorem text_ne_nil_of_good {s : Seg} (hs : SegGood s) :
    (match s with | .lit l => l | .param n => n) ≠ [] := by
  cases s with
  | lit l => obtain ⟨c, l', rfl, _⟩ := lit_good hs; simp
  | param n => exact (param_good hs).1

theorem slash_from_cur (s : Seg) (hs : SegGood s) (rest : Bytes) (st off : Nat) (sch : Option Bytes)
    (ab : Bool) (sg : List Segment) :
    parseLoop ⟨curState st s, sch, ab, sg⟩ off (47 :: rest) =
      parseLoop ⟨.segmentStart, sch, ab, sg ++ [curSegment st s]⟩ (off + 1) rest := by
  cases s with
  | lit l =>
    obtain ⟨c, l', rfl, _⟩ := lit_good hs
    simp [curState, curSegment, parseLoop, transition]
  | param n =>
    have hn := (param_good hs).1
    have : 0 < n.length := by cases n <;> simp_all
    simp [curState, curSegment, parseLoop, transition, this]

theorem end_from_cur (s : Seg) (hs : SegGood s) (st off : Nat) (sch : Option Bytes)
    (ab : Bool) (sg : List Segment) :
    parseEnd ⟨curState st s, sch, ab, sg⟩ off = .ok (sg ++ [curSegment st s]) := by
  cases s with
  | lit l =>
    obtain ⟨c, l', rfl, _⟩ := lit_good hs
    simp [curState, curSegment, parseEnd]
  | param n =>
    have hn := (param_good hs).1
    have : 0 < n.length := by cases n <;> simp_all
    simp [curState, curSegment, parseEnd, this]

/-! ### the rest of the pattern -/

/-- From accumulator `a` at `off`, the text is accepted and the result is `(sch, ab, segs)`. -/
def Finishes (a : PAcc) (off : Nat) (text : Bytes) (sch : Option Bytes) (ab : Bool) (segs : List Seg) : Prop :=
  ∃ a' off' sg', parseLoop a off text = .ok (a', off') ∧ parseEnd a' off' = .ok sg' ∧
    sg'.map Segment.toSeg = segs ∧ a'.scheme = sch ∧ a'.absolute = ab

theorem finishes_of_eq {a b : PAcc} {off off2 : Nat} {text rest : Bytes} {sch : Option Bytes} {ab : Bool}
    {segs : List Seg} (h : parseLoop a off text = parseLoop b off2 rest) (hb : Finishes b off2 rest sch ab segs) :
    Finishes a off text sch ab segs := by
  obtain ⟨a', off', sg', h1, h2⟩ := hb
  exact ⟨a', off', sg', by rw [h, h1], h2⟩

/-- Text of the segments that follow the first one. -/
def tailText (ss : List Seg) : Bytes := joinParts false false (ss.map Seg.text)

theorem joinParts_false_irrel (ab : Bool) (xs : List Bytes) : joinParts ab false xs = joinParts false false xs := by
  induction xs with
  | nil => rfl
  | cons x xs ih => simp [joinParts, ih]

theorem tailText_cons (t : Seg) (ts : List Seg) : tailText (t :: ts) = 47 :: (t.text ++ tailText ts) := by
  simp [tailText, joinParts]

theorem finishes_tail (ss : List Seg) (hss : ∀ t ∈ ss, SegGood t) (s : Seg) (hs : SegGood s) (st off : Nat)
    (sch : Option Bytes) (ab : Bool) (sg : List Segment) :
    Finishes ⟨curState st s, sch, ab, sg⟩ off (tailText ss) sch ab (sg.map Segment.toSeg ++ s :: ss) := by
  induction ss generalizing s st off sg with
  | nil =>
    refine ⟨_, off, _, by simp [tailText, joinParts, parseLoop], end_from_cur s hs st off sch ab sg, ?_, rfl, rfl⟩
    simp [toSeg_curSegment]
  | cons t ts ih =>
    have ht := hss t (by simp)
    have hts : ∀ u ∈ ts, SegGood u := fun u hu => hss u (by simp [hu])
    rw [tailText_cons]
    have h1 := slash_from_cur s hs (t.text ++ tailText ts) st off sch ab sg
    have h2 := seg_from_segmentStart t ht (tailText ts) (off + 1) sch ab (sg ++ [curSegment st s])
    have h3 := ih hts t ht (off + 1) (off + 1 + t.text.length) (sg ++ [curSegment st s])
    have h4 := finishes_of_eq (h1.trans h2) h3
    simpa [toSeg_curSegment] using h4

theorem finishes_segmentStart (t : Seg) (ts : List Seg) (ht : SegGood t) (hts : ∀ u ∈ ts, SegGood u) (off : Nat)
    (sch : Option Bytes) (ab : Bool) (sg : List Segment) :
    Finishes ⟨.segmentStart, sch, ab, sg⟩ off (t.text ++ tailText ts) sch ab (sg.map Segment.toSeg ++ t :: ts) :=
  finishes_of_eq (seg_from_segmentStart t ht (tailText ts) off sch ab sg)
    (finishes_tail ts hts t ht off (off + t.text.length) sch ab sg)

theorem pathText_cons (ab : Bool) (t : Seg) (ts : List Seg) :
    joinParts ab true ((t :: ts).map Seg.text) = (if ab then [47] else []) ++ (t.text ++ tailText ts) := by
  cases ab <;> simp [joinParts, tailText, joinParts_false_irrel]

/-! ### the whole pattern -/

/-- Absolute path (from `start` or `afterScheme`). -/
theorem finishes_abs_start (t : Seg) (ts : List Seg) (ht : SegGood t) (hts : ∀ u ∈ ts, SegGood u)
    (off : Nat) (sch : Option Bytes) (ab : Bool) :
    Finishes ⟨.start, sch, ab, []⟩ off (47 :: (t.text ++ tailText ts)) sch true (t :: ts) := by
  have h1 : parseLoop ⟨.start, sch, ab, []⟩ off (47 :: (t.text ++ tailText ts)) =
      parseLoop ⟨.segmentStart, sch, true, []⟩ (off + 1) (t.text ++ tailText ts) := by
    simp [parseLoop, transition]
  simpa using finishes_of_eq h1 (finishes_segmentStart t ts ht hts (off + 1) sch true [])

theorem finishes_abs_afterScheme (t : Seg) (ts : List Seg) (ht : SegGood t) (hts : ∀ u ∈ ts, SegGood u)
    (off : Nat) (sch : Option Bytes) (ab : Bool) :
    Finishes ⟨.afterScheme, sch, ab, []⟩ off (47 :: (t.text ++ tailText ts)) sch true (t :: ts) := by
  have h1 : parseLoop ⟨.afterScheme, sch, ab, []⟩ off (47 :: (t.text ++ tailText ts)) =
      parseLoop ⟨.segmentStart, sch, true, []⟩ (off + 1) (t.text ++ tailText ts) := by
    simp [parseLoop, transition]
  simpa using finishes_of_eq h1 (finishes_segmentStart t ts ht hts (off + 1) sch true [])

theorem finishes_rel_afterScheme (t : Seg) (ts : List Seg) (ht : SegGood t) (hts : ∀ u ∈ ts, SegGood u)
    (off : Nat) (sch : Option Bytes) (ab : Bool) :
    Finishes ⟨.afterScheme, sch, ab, []⟩ off (t.text ++ tailText ts) sch false (t :: ts) := by
  simpa using finishes_of_eq (seg_from_afterScheme t ht (tailText ts) off sch ab [])
    (finishes_tail ts hts t ht off (off + t.text.length) sch false [])

theorem finishes_rel_start (t : Seg) (ts : List Seg) (ht : SegGood t) (hts : ∀ u ∈ ts, SegGood u)
    (hna : ∀ c l', t = .lit (c :: l') → isAlpha c = false) (off : Nat) (sch : Option Bytes) (ab : Bool) :
    Finishes ⟨.start, sch, ab, []⟩ off (t.text ++ tailText ts) sch false (t :: ts) := by
  simpa using finishes_of_eq (seg_from_start t ht hna (tailText ts) off sch ab [])
    (finishes_tail ts hts t ht off (off + t.text.length) sch false [])

/-- Relative scheme-less pattern whose first literal starts with a letter and has no `:`. -/
theorem finishes_rel_alpha (c : Nat) (l' : Bytes) (ts : List Seg) (hc : isAlpha c = true) (h47 : 47 ∉ l')
    (h58 : 58 ∉ l') (hts : ∀ u ∈ ts, SegGood u) :
    Finishes ⟨.start, none, false, []⟩ 0 (c :: l' ++ tailText ts) none false (.lit (c :: l') :: ts) := by
  have hc47 : c ≠ 47 := by intro e; subst e; simp [isAlpha_47] at hc
  have hc58 : c ≠ 58 := by intro e; subst e; revert hc; decide
  have h1 : parseLoop ⟨.start, none, false, []⟩ 0 (c :: l' ++ tailText ts) =
      parseLoop ⟨.schemeOrLiteral 0 (c :: l'), none, false, []⟩ (0 + 1 + l'.length) (tailText ts) := by
    simp only [List.cons_append, parseLoop, transition, hc47, hc58, hc, ↓reduceIte]
    rw [loop_schemeOrLiteral l' (tailText ts) [c] 0 (0 + 1) none false [] h47 h58]
    simp
  refine finishes_of_eq h1 ?_
  cases ts with
  | nil =>
    refine ⟨⟨.schemeOrLiteral 0 (c :: l'), none, false, []⟩, 0 + 1 + l'.length, [⟨0, c :: l', false⟩],
      by simp [tailText, joinParts, parseLoop], by simp [parseEnd], ?_, rfl, rfl⟩
    simp [Segment.toSeg]
  | cons t ts =>
    have ht := hts t (by simp)
    have hts' : ∀ u ∈ ts, SegGood u := fun u hu => hts u (by simp [hu])
    rw [tailText_cons]
    have h2 : parseLoop ⟨.schemeOrLiteral 0 (c :: l'), none, false, []⟩ (0 + 1 + l'.length)
        (47 :: (t.text ++ tailText ts)) =
        parseLoop ⟨.segmentStart, none, false, [⟨0, c :: l', false⟩]⟩ (0 + 1 + l'.length + 1)
          (t.text ++ tailText ts) := by
      simp [parseLoop, transition]
    have h3 := finishes_segmentStart t ts ht hts' (0 + 1 + l'.length + 1) none false [⟨0, c :: l', false⟩]
    simpa [Segment.toSeg] using finishes_of_eq h2 h3

/-- The scheme prefix. -/
theorem loop_scheme (b : Nat) (tl rest : Bytes) (hb : isAlpha b = true) (h47 : 47 ∉ tl) (h58 : 58 ∉ tl) :
    parseLoop ⟨.start, none, false, []⟩ 0 (b :: tl ++ 58 :: rest) =
      parseLoop ⟨.afterScheme, some (b :: tl), false, []⟩ (0 + 1 + tl.length + 1) rest := by
  have hc47 : b ≠ 47 := by intro e; subst e; simp [isAlpha_47] at hb
  have hc58 : b ≠ 58 := by intro e; subst e; revert hb; decide
  simp only [List.cons_append, parseLoop, transition, hc47, hc58, hb, ↓reduceIte]
  rw [loop_schemeOrLiteral tl (58 :: rest) [b] 0 (0 + 1) none false [] h47 h58]
  simp [parseLoop, transition]

/-! ### the duplicate-name check succeeds on distinct decoded names -/

theorem dupCheck_ok (seen : List Bytes) (segs : List Segment)
    (hnd : ((segNames segs).map decodeLossy).Nodup)
    (hfresh : ∀ n ∈ (segNames segs).map decodeLossy, n ∉ seen) : dupCheck seen segs = .ok () := by
  induction segs generalizing seen with
  | nil => rfl
  | cons s rest ih =>
    by_cases hp : s.parameter = true
    · have hn : segNames (s :: rest) = s.str :: segNames rest := by simp [segNames, hp]
      rw [hn, List.map_cons] at hnd hfresh
      rw [List.nodup_cons] at hnd
      have h1 : seen.contains (decodeLossy s.str) = false := by
        have := hfresh (decodeLossy s.str) (by simp)
        simpa using this
      simp only [dupCheck, hp, ↓reduceIte, h1, Bool.false_eq_true]
      apply ih _ hnd.2
      intro n hn' hin
      simp only [List.mem_cons] at hin
      rcases hin with rfl | hin
      · exact hnd.1 hn'
      · exact hfresh n (by simp only [List.mem_cons]; exact Or.inr hn') hin
    · have hn : segNames (s :: rest) = segNames rest := by simp [segNames, hp]
      rw [hn] at hnd hfresh
      simp only [dupCheck, hp, Bool.false_eq_true, ↓reduceIte]
      exact ih _ hnd hfresh

theorem parsePattern_of_finishes (text : Bytes) (p : Pat) (h : Finishes {} 0 text p.scheme p.absolute p.segs)
    (hnd : nodupB (p.params.map decodeLossy) = true) : parsePattern text = .ok p := by
  obtain ⟨a', off', sg', h1, h2, h3, h4, h5⟩ := h
  have hd : dupCheck [] sg' = .ok () := by
    apply dupCheck_ok
    · rw [← params_map_toSeg, h3]; exact nodupB_nodup _ hnd
    · simp
  obtain ⟨sch, ab, segs⟩ := p
  simp only at h3 h4 h5
  simp [parsePattern, h1, h2, hd, h3, h4, h5]

theorem structOk_noColon_good {s : Seg} (h1 : s.structOk = true) (h2 : s.noColonStart = true) : SegGood s := ⟨h1, h2⟩

theorem parsePattern_render (p : Pat) (hr : p.renderable = true) : parsePattern p.render = .ok p := by
  obtain ⟨sch, ab, segs⟩ := p
  simp only [Pat.renderable, Pat.structOk, Bool.and_eq_true, List.all_eq_true] at hr
  obtain ⟨⟨⟨⟨⟨⟨hso, _⟩, hfirst⟩, hnd⟩, hnc⟩, hsch⟩, hemp⟩ := hr
  have hgood : ∀ s ∈ segs, SegGood s := fun s hs => ⟨hso s hs, hnc s hs⟩
  apply parsePattern_of_finishes _ _ _ hnd
  simp only [Pat.render]
  show Finishes ⟨.start, none, false, []⟩ 0 _ _ _ _
  cases sch with
  | some sc =>
    cases sc with
    | nil => simp [patSchemeOk] at hsch
    | cons b tl =>
      simp only [patSchemeOk, Bool.and_eq_true, Bool.not_eq_eq_eq_not, Bool.not_true] at hsch
      have h58 : 58 ∉ tl := by intro e; simp [e] at hsch
      have h47 : 47 ∉ tl := by intro e; simp [e] at hsch
      simp only [schemePrefix, List.append_assoc, List.singleton_append]
      refine finishes_of_eq (loop_scheme b tl _ hsch.1.1 h47 h58) ?_
      cases segs with
      | nil =>
        have hab : ab = false := by simpa using hemp
        subst hab
        exact ⟨⟨.afterScheme, some (b :: tl), false, []⟩, 0 + 1 + tl.length + 1, [],
          by simp [joinParts, parseLoop], by simp [parseEnd], rfl, rfl, rfl⟩
      | cons t ts =>
        have ht := hgood t (by simp)
        have hts : ∀ u ∈ ts, SegGood u := fun u hu => hgood u (by simp [hu])
        rw [pathText_cons]
        cases ab with
        | true => exact finishes_abs_afterScheme t ts ht hts _ _ _
        | false => exact finishes_rel_afterScheme t ts ht hts _ _ _
  | none =>
    simp only [schemePrefix, List.nil_append]
    cases segs with
    | nil => simp at hemp
    | cons t ts =>
      have ht := hgood t (by simp)
      have hts : ∀ u ∈ ts, SegGood u := fun u hu => hgood u (by simp [hu])
      rw [pathText_cons]
      cases ab with
      | true => exact finishes_abs_start t ts ht hts _ _ _
      | false =>
        simp only [Bool.false_eq_true, ↓reduceIte, List.nil_append]
        by_cases hal : ∃ c l', t = .lit (c :: l') ∧ isAlpha c = true
        · obtain ⟨c, l', rfl, hc⟩ := hal
          obtain ⟨_, _, hcl, _, _, h47⟩ := lit_good ht
          simp only [Seg.lit.injEq, List.cons.injEq] at hcl
          obtain ⟨rfl, rfl⟩ := hcl
          have h58 : 58 ∉ l' := by
            intro e
            simp [firstLitOk, hc, e] at hfirst
          exact finishes_rel_alpha c l' ts hc h47 h58 hts
        · apply finishes_rel_start t ts ht hts
          intro c l' ht'
          cases hc : isAlpha c with
          | false => rfl
          | true => exact absurd ⟨c, l', ht', hc⟩ hal

end SwimVerif.Route
