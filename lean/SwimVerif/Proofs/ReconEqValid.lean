/-
C15 helper lemmas: `ValueValidator` on the canonical event stream of a value — it takes every value in as one item of
the expected size and is never `Invalid`; hence canonical streams of equal values compare `Some(true)`.
-/
import SwimVerif.Proofs.ReconEqCmp

namespace SwimVerif.ReconEq
open SwimVerif.Recon

theorem feedAll_append (v : VV) (a b : List Event) : feedAll v (a ++ b) = feedAll (feedAll v a) b := by
  induction a generalizing v with
  | nil => rfl
  | cons e r ih => simp [feedAll, ih]

mutual
/-- The size information the validator keeps for a value. -/
def vtype : Value → ValueType
  | .record a i => .record (alen a) (ilen i)
  | _ => .primitive
def alen : Attrs → Nat
  | .nil => 0
  | .cons _ v r => (vtype v).len + alen r
def ilen : Items → Nat
  | .nil => 0
  | .val v r => (vtype v).len + ilen r
  | .slot k v r => (vtype k).len + (vtype v).len + ilen r
end

/-- The item added for a value, under the pending slot key if there is one. -/
def mkItem (sk : Option ValueType) (t : ValueType) : ItemType :=
  match sk with
  | some k => .slot k t
  | none => .value t

/-- The key of a record frame opened while `sk` is the pending slot key. -/
def keyOf (sk : Option ValueType) : KeyState :=
  match sk with
  | some k => .slot k
  | none => .noKey

/-- A validator in progress. -/
abbrev S (stack : List BuilderState) (sk : Option ValueType) : VV :=
  { state := .inProgress, stack := stack, slotKey := sk }

/-- A builder. -/
abbrev F (key : KeyState) (inBody : Bool) (attrs : Nat) (items : ItemCollection) : BuilderState :=
  { key := key, inBody := inBody, attrs := attrs, items := items }

/-- What the items of a record body do to the collection of its builder. -/
def pushItems (c : ItemCollection) : Items → ItemCollection
  | .nil => c
  | .val v r => pushItems (c.push (.value (vtype v))) r
  | .slot k v r =>
    pushItems (({ (c.push (.value (vtype k))) with last := none } : ItemCollection).push (.slot (vtype k) (vtype v))) r

theorem itemsLen_push (c : ItemCollection) (it : ItemType) : (c.push it).itemsLen = c.itemsLen + it.len := by
  unfold ItemCollection.push ItemCollection.itemsLen
  cases c.last <;> simp

theorem itemsLen_slot (c : ItemCollection) (k t : ValueType) :
    (({ (c.push (.value k)) with last := none } : ItemCollection).push (.slot k t)).itemsLen
      = c.itemsLen + (k.len + t.len) := by
  unfold ItemCollection.push ItemCollection.itemsLen
  cases c.last <;> simp [ItemType.len]

theorem itemsLen_pushItems : (i : Items) → (c : ItemCollection) → (pushItems c i).itemsLen = c.itemsLen + ilen i
  | .nil, c => by simp [pushItems, ilen]
  | .val v r, c => by
    simp only [pushItems, ilen]
    rw [itemsLen_pushItems r, itemsLen_push]
    simp [ItemType.len]; omega
  | .slot k v r, c => by
    simp only [pushItems, ilen]
    rw [itemsLen_pushItems r, itemsLen_slot]
    omega

/-! ### single steps -/

theorem feed_prim (key : KeyState) (attrs : Nat) (items : ItemCollection) (rest : List BuilderState)
    (sk : Option ValueType) (e : Event) (he : e.isPrim = true) :
    ((S (F key true attrs items :: rest) sk).feed e).1
      = S (F key true attrs (items.push (mkItem sk .primitive)) :: rest) none := by
  cases e <;> simp [Event.isPrim] at he <;> cases sk <;> rfl

theorem feed_startBody_inBody (key : KeyState) (attrs : Nat) (items : ItemCollection) (rest : List BuilderState)
    (sk : Option ValueType) :
    ((S (F key true attrs items :: rest) sk).feed .startBody).1
      = S (F (keyOf sk) true 0 {} :: F key true attrs items :: rest) none := by
  cases sk <;> rfl

theorem feed_startBody_header (key : KeyState) (attrs : Nat) (items : ItemCollection) (rest : List BuilderState) :
    ((S (F key false attrs items :: rest) none).feed .startBody).1 = S (F key true attrs items :: rest) none := rfl

theorem feed_startAttr_inBody (key : KeyState) (attrs : Nat) (items : ItemCollection) (rest : List BuilderState)
    (sk : Option ValueType) (n : List Char) :
    ((S (F key true attrs items :: rest) sk).feed (.startAttr n)).1
      = ((S (F (keyOf sk) false 0 {} :: F key true attrs items :: rest) none).feed (.startAttr n)).1 := by
  cases sk <;> rfl

theorem feed_startAttr_header (key : KeyState) (attrs : Nat) (items : ItemCollection) (rest : List BuilderState)
    (n : List Char) :
    ((S (F key false attrs items :: rest) none).feed (.startAttr n)).1
      = S (F .attr true 0 {} :: F key false attrs items :: rest) none := rfl

theorem feed_endAttr_empty (key : KeyState) (attrs : Nat) (items : ItemCollection) (rest : List BuilderState) :
    ((S (F .attr true 0 {} :: F key false attrs items :: rest) none).feed .endAttr).1
      = S (F key false (attrs + ValueType.primitive.len) items :: rest) none := rfl

theorem feed_endAttr_one (key : KeyState) (attrs : Nat) (items : ItemCollection) (rest : List BuilderState)
    (t : ValueType) :
    ((S (F .attr true 0 (({} : ItemCollection).push (.value t)) :: F key false attrs items :: rest) none).feed .endAttr).1
      = S (F key false (attrs + t.len) items :: rest) none := rfl

theorem feed_slot (key : KeyState) (attrs : Nat) (items : ItemCollection) (rest : List BuilderState) (t : ValueType) :
    ((S (F key true attrs (items.push (.value t)) :: rest) none).feed .slot).1
      = S (F key true attrs { (items.push (.value t)) with last := none } :: rest) (some t) := rfl

theorem feed_endRecord (sk : Option ValueType) (a : Nat) (c : ItemCollection) (key : KeyState) (attrs : Nat)
    (items : ItemCollection) (rest : List BuilderState) :
    ((S (F (keyOf sk) true a c :: F key true attrs items :: rest) none).feed .endRecord).1
      = S (F key true attrs (items.push (mkItem sk (.record a c.itemsLen))) :: rest) none := by
  cases sk <;> rfl

/-! ### a whole value -/

theorem bodyEvs_extant : bodyEvs .extant = [] := rfl

theorem bodyEvs_of_ne (v : Value) (h : v ≠ .extant) : bodyEvs v = evsV v := by
  cases v <;> simp [bodyEvs] at h ⊢

theorem vtype_len_extant : (vtype .extant).len = ValueType.primitive.len := rfl

mutual
/-- A value in item position becomes one item of the builder on top, under the pending slot key. -/
theorem feedAll_value : (x : Value) → (key : KeyState) → (attrs : Nat) → (items : ItemCollection) →
    (rest : List BuilderState) → (sk : Option ValueType) → (tail : List Event) →
    feedAll (S (F key true attrs items :: rest) sk) (evsV x ++ tail)
      = feedAll (S (F key true attrs (items.push (mkItem sk (vtype x))) :: rest) none) tail
  | .extant, key, attrs, items, rest, sk, tail => by
    simp only [evsV, List.cons_append, List.nil_append, feedAll]; rw [feed_prim _ _ _ _ _ _ rfl]; rfl
  | .int k n, key, attrs, items, rest, sk, tail => by
    simp only [evsV, List.cons_append, List.nil_append, feedAll]; rw [feed_prim _ _ _ _ _ _ rfl]; rfl
  | .float f, key, attrs, items, rest, sk, tail => by
    simp only [evsV, List.cons_append, List.nil_append, feedAll]; rw [feed_prim _ _ _ _ _ _ rfl]; rfl
  | .bool b, key, attrs, items, rest, sk, tail => by
    simp only [evsV, List.cons_append, List.nil_append, feedAll]; rw [feed_prim _ _ _ _ _ _ rfl]; rfl
  | .text s, key, attrs, items, rest, sk, tail => by
    simp only [evsV, List.cons_append, List.nil_append, feedAll]; rw [feed_prim _ _ _ _ _ _ rfl]; rfl
  | .data bs, key, attrs, items, rest, sk, tail => by
    simp only [evsV, List.cons_append, List.nil_append, feedAll]; rw [feed_prim _ _ _ _ _ _ rfl]; rfl
  | .record .nil i, key, attrs, items, rest, sk, tail => by
    simp only [evsV, evsA, List.nil_append, List.cons_append, List.append_assoc, feedAll]
    rw [feed_startBody_inBody, feedAll_items i, feedAll, feed_endRecord, itemsLen_pushItems i]
    simp [vtype, alen, ItemCollection.itemsLen]
  | .record (.cons n v r) i, key, attrs, items, rest, sk, tail => by
    have h1 : feedAll (S (F key true attrs items :: rest) sk) (evsV (.record (.cons n v r) i) ++ tail)
        = feedAll (S (F (keyOf sk) false 0 {} :: F key true attrs items :: rest) none)
            (evsV (.record (.cons n v r) i) ++ tail) := by
      simp only [evsV, evsA_cons, List.cons_append, List.append_assoc, feedAll]
      rw [feed_startAttr_inBody]
    rw [h1]
    simp only [evsV, List.append_assoc, List.cons_append]
    rw [feedAll_attrs (.cons n v r), feedAll, feed_startBody_header, feedAll_items i, feedAll, feed_endRecord,
      itemsLen_pushItems i]
    simp [vtype, ItemCollection.itemsLen]
/-- The attributes of a record add their sizes to the `attrs` of its (not yet opened) builder. -/
theorem feedAll_attrs : (a : Attrs) → (key : KeyState) → (attrs : Nat) → (items : ItemCollection) →
    (rest : List BuilderState) → (tail : List Event) →
    feedAll (S (F key false attrs items :: rest) none) (evsA a ++ tail)
      = feedAll (S (F key false (attrs + alen a) items :: rest) none) tail
  | .nil, key, attrs, items, rest, tail => by simp [evsA, alen]
  | .cons n v r, key, attrs, items, rest, tail => by
    rw [evsA_cons]
    simp only [List.cons_append, List.append_assoc, feedAll]
    rw [feed_startAttr_header]
    by_cases hv : v = .extant
    · subst hv
      rw [bodyEvs_extant]
      simp only [List.nil_append, List.cons_append, feedAll]
      rw [feed_endAttr_empty, feedAll_attrs r]
      simp [alen, vtype, Nat.add_assoc]
    · rw [bodyEvs_of_ne v hv, feedAll_value v]
      simp only [List.nil_append, List.cons_append, feedAll, mkItem]
      rw [feed_endAttr_one, feedAll_attrs r]
      simp [alen, Nat.add_assoc]
/-- The items of a record body go into its builder. -/
theorem feedAll_items : (i : Items) → (key : KeyState) → (attrs : Nat) → (items : ItemCollection) →
    (rest : List BuilderState) → (tail : List Event) →
    feedAll (S (F key true attrs items :: rest) none) (evsI i ++ tail)
      = feedAll (S (F key true attrs (pushItems items i) :: rest) none) tail
  | .nil, key, attrs, items, rest, tail => by simp [evsI, pushItems]
  | .val v r, key, attrs, items, rest, tail => by
    simp only [evsI, List.append_assoc]
    rw [feedAll_value v, feedAll_items r]
    rfl
  | .slot k v r, key, attrs, items, rest, tail => by
    simp only [evsI, List.append_assoc, List.cons_append]
    rw [feedAll_value k]
    simp only [mkItem, feedAll]
    rw [feed_slot, feedAll_value v, feedAll_items r]
    rfl
end

/-- At the top level every canonical stream brings the validator back to its initial state. -/
theorem feedAll_top (x : Value) : feedAll {} (evsV x) = {} := by
  cases x with
  | record a i =>
    cases a with
    | nil =>
      have h := feedAll_items i .noKey 0 {} [] [.endRecord]
      simp only [evsV, evsA, List.nil_append, feedAll]
      have h0 : ((({} : VV).feed .startBody).1) = S [F .noKey true 0 {}] none := rfl
      rw [h0, h]
      rfl
    | cons n v r =>
      have h0 : feedAll {} (evsV (.record (.cons n v r) i))
          = feedAll (S [F .noKey false 0 {}] none) (evsV (.record (.cons n v r) i)) := by
        simp only [evsV, evsA_cons, List.cons_append, List.append_assoc, feedAll]
        rfl
      rw [h0]
      simp only [evsV]
      rw [feedAll_attrs (.cons n v r), feedAll, feed_startBody_header, feedAll_items i]
      rfl
  | _ => rfl

/-! ### never `Invalid` -/

theorem feed_invalid (v : VV) (e : Event) (h : v.state = .invalid) : (v.feed e).1 = v := by
  unfold VV.feed
  simp [h]

theorem feedAll_invalid (v : VV) (es : List Event) (h : v.state = .invalid) : feedAll v es = v := by
  induction es with
  | nil => rfl
  | cons e r ih => simp [feedAll, feed_invalid v e h, ih]

/-- If the validator is not `Invalid` at the end of a list of events, it was not `Invalid` anywhere on the way. -/
theorem prefix_valid (v : VV) (a b : List Event) (h : (feedAll v (a ++ b)).state ≠ .invalid) :
    (feedAll v a).state ≠ .invalid := by
  intro hi
  rw [feedAll_append, feedAll_invalid _ _ hi] at h
  exact h hi

/-! ### canonical streams of equal values compare `Some(true)` -/

/-- Agreeing error-free streams on which the validator is never `Invalid` compare `Some(true)`. -/
theorem cmpLoop_agree_valid (fuel : Nat) (v : VV) (a b : List Event) (hf : a.length < fuel) (hv : v.beq v = true)
    (h : evsAgree a b = true) (hn : (feedAll v a).state ≠ .invalid) :
    cmpLoop fuel v v (a.map .ev) (b.map .ev) = some true := by
  induction fuel generalizing v a b with
  | zero => omega
  | succ n ih =>
    cases a with
    | nil =>
      cases b with
      | nil => simp [cmpLoop, hv]
      | cons y rb => simp [evsAgree] at h
    | cons e ra =>
      cases b with
      | nil => simp [evsAgree] at h
      | cons f rb =>
        simp only [evsAgree, Bool.and_eq_true] at h
        simp only [List.map_cons, cmpLoop, h.1, ↓reduceIte]
        rw [← VV.feed_congr v e f h.1]
        have hni : ((v.feed e).1).state ≠ .invalid := prefix_valid (v.feed e).1 [] ra (by simpa [feedAll] using hn)
        have hb : (v.feed e).1.beq (v.feed e).1 = true := by
          rcases VV.beq_self (v.feed e).1 with h' | h'
          · exact h'
          · exact absurd h' hni
        have ha : afterIter (v.feed e).1 (v.feed e).1 = none := by
          unfold afterIter; simp [hb]
        rw [ha]
        exact ih _ ra rb (by simp at hf; omega) hb h.2 (by simpa [feedAll] using hn)

theorem canonical_equal (v w : Value) (h : veq v w = true) :
    incrementalCompare (stream (evsV v, .fin)) (stream (evsV w, .fin)) = some true := by
  have hs : ∀ l : List Event, stream (l, Term.fin) = l.map SItem.ev := by
    intro l; simp [stream]
  rw [hs, hs]
  unfold incrementalCompare
  apply cmpLoop_agree_valid
  · simp; omega
  · exact VV.init_beq
  · exact evsV_agree v w h
  · rw [feedAll_top]; decide

end SwimVerif.ReconEq
