/-
C01 composition, proof layer 3: runtime steps (pipe transfer, link, write completion), the step theorem and the run
theorem of the per-remote invariant.
-/
import SwimVerif.Proofs.ValueComposeInv

set_option linter.unusedSimpArgs false
set_option linter.unusedVariables false
namespace SwimVerif.VC
open WT (USys UOp ustep Registry Body Resp Special Kind UnlinkMsg bodiesFor pushedBodies UInv VInv valueOp)

variable {R : List Body → List Nat → Prop} {ok : Prop} {l r : Nat}

/-! ### remote-only steps -/

theorem rinv_link {lane : VL.St} {pipe : List VL.Frame} {x : Rem} (h : RInv R ok l r lane pipe x) (reg : Registry) :
    RInv R ok l r lane pipe (x.link reg l lane.history.length) := by
  have ht : tl l r lane pipe (x.link reg l lane.history.length) = tl l r lane pipe x := rfl
  refine ⟨remok_link h.remok reg _, h.li, ?_, ?_, ?_, ?_, ?_, h.sq⟩
  · rw [ht]; exact h.samp
  · rw [ht]; exact h.last
  · intro hl; simp at hl
  · intro _ hs
    rw [ht]
    rw [since_link] at hs
    cases hx : x.linked with
    | true => rw [hx] at hs; exact h.since hx hs
    | false => rw [hx] at hs; simp at hs
  · intro ha; exact h.asked ha

theorem rinv_done {lane : VL.St} {pipe : List VL.Frame} {x : Rem} (h : RInv R ok l r lane pipe x) (reg : Registry) :
    RInv R ok l r lane pipe (x.done reg) := by
  have hp : pushedTo l (x.done reg) = pushedTo l x := pushedTo_done reg l x
  have ht : tl l r lane pipe (x.done reg) = tl l r lane pipe x := by simp only [tl, hp]
  refine ⟨remok_done h.remok reg, h.li, ?_, ?_, ?_, ?_, ?_, h.sq⟩
  · rw [ht]; exact h.samp
  · rw [ht]; exact h.last
  · intro hl; rw [hp]; exact h.unl hl
  · intro hl hs; rw [ht]; exact h.since hl hs
  · intro ha; rw [hp]; exact h.asked ha

/-! ### the runtime reads one frame -/

/-- the frame moves from the pipe into the remote (or does not concern it): the timeline is unchanged -/
theorem rinv_move {lane : VL.St} {f : VL.Frame} {rest : List VL.Frame} {x x' : Rem}
    (h : RInv R ok l r lane (f :: rest) x) (hok : RemOK l x')
    (ht : tl l r lane rest x' = tl l r lane (f :: rest) x)
    (hunl : x'.linked = false → pushedTo l x' = [])
    (hsince : x'.linked = true → x'.since < lane.history.length → x.linked = true ∧ x.since < lane.history.length)
    (hasked : x'.asked = true → x.asked = true)
    (hp : pushedTo l x ≠ [] → pushedTo l x' ≠ [])
    (hf : ∀ v, f = .syncEvent r v → pushedTo l x' ≠ []) : RInv R ok l r lane rest x' := by
  refine ⟨hok, h.li, ?_, ?_, hunl, ?_, ?_, h.sq⟩
  · rw [ht]; exact h.samp
  · rw [ht]; exact h.last
  · intro hl hs; rw [ht]; exact h.since (hsince hl hs).1 (hsince hl hs).2
  · intro ha
    rcases h.asked (hasked ha) with h1 | ⟨v, h1⟩ | h1
    · left; exact h1
    · rcases List.mem_cons.mp h1 with h2 | h2
      · right; right; exact hf v h2.symm
      · right; left; exact ⟨v, h2⟩
    · right; right; exact hp h1

theorem append_ne_nil_left {α : Type} {a : List α} (b : List α) (h : a ≠ []) : a ++ b ≠ [] := by
  intro h0; exact h (List.append_eq_nil_iff.mp h0).1

theorem snoc_ne_nil {α : Type} (a : List α) (b : α) : a ++ [b] ≠ [] := by simp

/-- a targeted frame with body `bs` (one value for a sync event, none for `synced`) reaches its remote -/
theorem rinv_target {lane : VL.St} {f : VL.Frame} {rest : List VL.Frame} {x : Rem} (reg : Registry)
    (h : RInv R ok l r lane (f :: rest) x) (resp : Resp)
    (hresp : (∃ b, resp = .value b) ∨ resp = .synced .value)
    (hb : (frameBody r f).toList = (WT.respBody? resp).toList)
    (hf : ∀ v, f = .syncEvent r v → (WT.respBody? resp).toList ≠ []) :
    RInv R ok l r lane rest (x.target reg l lane.history.length resp) := by
  have hpush : ∀ y : Rem, RemOK l y → RemOK l (y.push reg l resp) := by
    intro y hy
    rcases hresp with ⟨b, rfl⟩ | rfl
    · exact remok_push_value hy reg b
    · exact remok_push_synced hy reg
  have hP : pushedTo l (x.target reg l lane.history.length resp) = pushedTo l x ++ (WT.respBody? resp).toList := by
    unfold Rem.target
    split
    · exact pushedTo_push reg l resp x
    · rw [pushedTo_push]; rfl
  have hlinked : (x.target reg l lane.history.length resp).linked = true := by
    unfold Rem.target
    split
    · rename_i hl; simpa using hl
    · rfl
  have hasked : (x.target reg l lane.history.length resp).asked = x.asked := by
    unfold Rem.target; split <;> rfl
  apply rinv_move h
  · unfold Rem.target
    split
    · exact hpush _ h.remok
    · exact hpush _ (remok_link h.remok reg _)
  · simp only [tl, hP, pipeBodies_cons, hb, List.append_assoc]
  · intro hl; rw [hlinked] at hl; cases hl
  · intro _ hs
    cases hx : x.linked with
    | true =>
      refine ⟨rfl, ?_⟩
      have : (x.target reg l lane.history.length resp).since = x.since := by simp [Rem.target, hx]
      rw [this] at hs; exact hs
    | false =>
      have : (x.target reg l lane.history.length resp).since = lane.history.length := by
        simp [Rem.target, hx, since_link]
      rw [this] at hs; exact absurd hs (Nat.lt_irrefl _)
  · intro ha; rw [hasked] at ha; exact ha
  · intro hne; rw [hP]; exact append_ne_nil_left _ hne
  · intro v hv; rw [hP]
    intro h0
    exact hf v hv (List.append_eq_nil_iff.mp h0).2

/-- a frame that does not concern the remote (addressed to another one) -/
theorem rinv_skip {lane : VL.St} {f : VL.Frame} {rest : List VL.Frame} {x : Rem}
    (h : RInv R ok l r lane (f :: rest) x) (hb : frameBody r f = none) (hf : ∀ v, f ≠ .syncEvent r v) :
    RInv R ok l r lane rest x := by
  apply rinv_move h h.remok
  · simp [tl, pipeBodies_cons, hb]
  · exact h.unl
  · intro hl hs; exact ⟨hl, hs⟩
  · exact id
  · exact id
  · intro v hv; exact absurd hv (hf v)

/-- a broadcast event: pushed if the remote is linked; otherwise it is lost on a remote that was never served -/
theorem rinv_bcast {lane : VL.St} {rest : List VL.Frame} {x : Rem} (hR : SampRel R ok) (reg : Registry) (v : Nat)
    (h : RInv R ok l r lane (.event v :: rest) x) :
    RInv R ok l r lane rest (x.bcast reg l (.value [v])) := by
  cases hx : x.linked with
  | true =>
    have e : x.bcast reg l (.value [v]) = x.push reg l (.value [v]) := by simp [Rem.bcast, hx]
    rw [e]
    apply rinv_move h (remok_push_value h.remok reg _)
    · simp [tl, pipeBodies_cons, frameBody]
    · intro hl; simp [hx] at hl
    · intro _ hs; exact ⟨hx, by simpa using hs⟩
    · exact id
    · intro hne; rw [pushedTo_push_value]; exact append_ne_nil_left _ hne
    · intro v' hv; cases hv
  | false =>
    have e : x.bcast reg l (.value [v]) = x := by simp [Rem.bcast, hx]
    rw [e]
    have hP := h.unl hx
    have ht : tl l r lane (.event v :: rest) x = body v :: tl l r lane rest x := by
      simp [tl, hP, pipeBodies_cons, frameBody]
    refine ⟨h.remok, h.li, ?_, ?_, h.unl, ?_, ?_, h.sq⟩
    · have := h.samp
      rw [ht] at this
      exact hR.sub (List.sublist_cons_self _ _) this
    · intro hne
      have := h.last (by rw [ht]; simp)
      rw [ht, List.getLast?_cons_of_ne_nil hne] at this
      exact this
    · intro hl; rw [hx] at hl; cases hl
    · intro ha
      rcases h.asked ha with h1 | ⟨v', h1⟩ | h1
      · left; exact h1
      · rcases List.mem_cons.mp h1 with h2 | h2
        · cases h2
        · right; left; exact ⟨v', h2⟩
      · right; right; exact h1

/-- `deliverFrame`, seen from remote `r` -/
theorem rinv_xfer {lane : VL.St} {f : VL.Frame} {rest : List VL.Frame} {rem : Nat → Rem} (hR : SampRel R ok)
    (reg : Registry) (h : RInv R ok l r lane (f :: rest) (rem r)) :
    RInv R ok l r lane rest (deliverFrame reg l lane.history.length rem f r) := by
  cases f with
  | event v => exact rinv_bcast hR reg v h
  | syncEvent r0 v =>
    simp only [deliverFrame]
    by_cases hr : r = r0
    · subst hr
      rw [upd_same]
      exact rinv_target reg h (.value [v]) (Or.inl ⟨_, rfl⟩) (by simp [frameBody, WT.respBody?, body])
        (by intro _ _; simp [WT.respBody?])
    · rw [upd_ne _ _ hr]
      exact rinv_skip h (by simp [frameBody, Ne.symm hr]) (by intro v' hv; cases hv; exact hr rfl)
  | synced r0 =>
    simp only [deliverFrame]
    by_cases hr : r = r0
    · subst hr
      rw [upd_same]
      exact rinv_target reg h (.synced .value) (Or.inr rfl) (by simp [frameBody, WT.respBody?])
        (by intro _ hv; cases hv)
    · rw [upd_ne _ _ hr]
      exact rinv_skip h rfl (by intro v' hv; cases hv)

/-! ### the step and run theorems -/

/-- The invariant of remote `r` in a state of the composed system. -/
def CInv (R : List Body → List Nat → Prop) (ok : Prop) (l r : Nat) (s : CSys) : Prop :=
  RInv R ok l r s.lane s.pipe (s.rem r)

theorem cinv_init (hR : SampRel R ok) : CInv R ok l r {} := rinv_init hR

theorem cinv_step (hR : SampRel R ok) (reg : Registry) {s : CSys} (h : CInv R ok l r s) (op : COp)
    (hno : op ≠ .unlink r) (hs : op = .sync r → ok) : CInv R ok l r (cStep reg l s op) := by
  unfold CInv at *
  cases op with
  | set v => exact rinv_set hR h v
  | sync r0 =>
    simp only [cStep]
    by_cases hr : r = r0
    · subst hr
      rw [upd_same]
      exact rinv_sync_self h (hs rfl)
    · rw [upd_ne _ _ hr]
      exact rinv_sync h r0 (fun e => absurd e.symm hr)
  | write => exact rinv_write hR h
  | xfer =>
    simp only [cStep]
    cases hp : s.pipe with
    | nil => simpa [hp] using h
    | cons f rest =>
      simp only []
      rw [hp] at h
      exact rinv_xfer hR reg h
  | link r0 =>
    simp only [cStep]
    by_cases hr : r = r0
    · subst hr; rw [upd_same]; exact rinv_link h reg
    · rw [upd_ne _ _ hr]; exact h
  | unlink r0 =>
    simp only [cStep]
    have hr : r ≠ r0 := by intro e; subst e; exact hno rfl
    rw [upd_ne _ _ hr]; exact h
  | done r0 =>
    simp only [cStep]
    by_cases hr : r = r0
    · subst hr; rw [upd_same]; exact rinv_done h reg
    · rw [upd_ne _ _ hr]; exact h

theorem cinv_run (hR : SampRel R ok) (reg : Registry) : ∀ (ops : List COp) (s : CSys), CInv R ok l r s →
    staysLinked r ops → (∀ op, op ∈ ops → op = .sync r → ok) → CInv R ok l r (cRun reg l s ops) := by
  intro ops
  induction ops with
  | nil => intro s h _ _; exact h
  | cons op rest ih =>
    intro s h hno hs
    exact ih _ (cinv_step hR reg h op (hno op List.mem_cons_self) (hs op List.mem_cons_self))
      (fun o ho => hno o (List.mem_cons_of_mem _ ho)) (fun o ho => hs o (List.mem_cons_of_mem _ ho))

end SwimVerif.VC
