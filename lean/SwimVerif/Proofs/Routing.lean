/-
Helper lemmas for C11 (routing part): finite-map laws, the subscription table, the routing invariant.
-/
import SwimVerif.Model.Routing

set_option linter.unusedSimpArgs false
set_option linter.unusedVariables false
namespace SwimVerif.Routing
open SwimVerif.Envelope

variable {κ α : Type} [DecidableEq κ]

theorem kGet_kSet (l : List (κ × α)) (k k' : κ) (v : α) :
    kGet (kSet l k v) k' = if k = k' then some v else kGet l k' := by
  induction l with
  | nil => simp [kSet, kGet]
  | cons p rest ih =>
    obtain ⟨a, b⟩ := p
    by_cases h1 : a = k
    · subst h1
      by_cases h2 : a = k' <;> simp [kSet, kGet, h2]
    · by_cases h2 : a = k'
      · subst h2
        have : ¬ k = a := fun h => h1 h.symm
        simp [kSet, kGet, h1, this]
      · simp [kSet, kGet, h1, h2, ih]

theorem kGet_kErase (l : List (κ × α)) (k k' : κ) :
    kGet (kErase l k) k' = if k = k' then none else kGet l k' := by
  induction l with
  | nil => simp [kErase, kGet]
  | cons p rest ih =>
    obtain ⟨a, b⟩ := p
    by_cases h1 : a = k
    · subst h1
      by_cases h2 : a = k'
      · subst h2; simp [kErase, ih]
      · simp [kErase, kGet, h2, ih]
    · by_cases h2 : a = k'
      · subst h2
        have : ¬ k = a := fun h => h1 h.symm
        simp [kErase, kGet, h1, this]
      · simp [kErase, kGet, h1, h2, ih]

theorem kGet_of_isEmpty (l : List (κ × α)) (h : l.isEmpty = true) (k : κ) : kGet l k = none := by
  cases l with
  | nil => rfl
  | cons _ _ => simp at h

/-! ### the subscription table behaves like a map keyed by the pair (node, lane) -/

theorem subsGet_push (s : Subs) (n l : Str) (id : Nat) (n' l' : Str) :
    subsGet (subsPush s n l id) n' l' =
      if n = n' ∧ l = l' then some ((subsGet s n l).getD [] ++ [id]) else subsGet s n' l' := by
  unfold subsGet subsPush
  rw [kGet_kSet]
  by_cases hn : n = n'
  · subst hn
    simp only [if_true, true_and]
    rw [kGet_kSet]
    by_cases hl : l = l'
    · subst hl
      simp only [if_true]
      cases kGet s n <;> simp [kGet]
    · simp only [hl, if_false]
      cases kGet s n <;> simp [kGet]
  · simp [hn]

theorem subsGet_retain (s : Subs) (n l : Str) (keep : List Nat) (n' l' : Str) :
    subsGet (subsRetain s n l keep) n' l' =
      if n = n' ∧ l = l' then
        (if (kGet s n).isSome ∧ keep.isEmpty = false then some keep
         else if keep.isEmpty then none else subsGet s n l)
      else subsGet s n' l' := by
  unfold subsRetain
  cases hm : kGet s n with
  | none =>
    by_cases hn : n = n'
    · subst hn
      by_cases hl : l = l'
      · subst hl; simp [subsGet, hm]
      · simp [hl]
    · simp [hn]
  | some m =>
    simp only [Option.isSome_some, true_and]
    by_cases hk : keep.isEmpty = true
    · simp only [hk, if_true]
      by_cases he : (kErase m l).isEmpty = true
      · simp only [he, if_true]
        unfold subsGet
        rw [kGet_kErase]
        by_cases hn : n = n'
        · subst hn
          by_cases hl : l = l'
          · simp [hl]
          · have := kGet_of_isEmpty _ he l'
            rw [kGet_kErase] at this
            simp only [hl, if_false] at this
            simp [hl, hm, this]
        · simp [hn]
      · have he' : (kErase m l).isEmpty = false := by simpa using he
        simp only [he', Bool.false_eq_true, if_false]
        unfold subsGet
        rw [kGet_kSet]
        by_cases hn : n = n'
        · subst hn
          simp only [if_true, true_and, kGet_kErase, hm]
          by_cases hl : l = l' <;> simp [hl]
        · simp [hn]
    · have hk' : keep.isEmpty = false := by simpa using hk
      simp only [hk', Bool.false_eq_true, if_false]
      unfold subsGet
      rw [kGet_kSet]
      by_cases hn : n = n'
      · subst hn
        simp only [if_true, true_and, kGet_kSet, hm]
      · simp [hn]


/-! ### the routing invariant -/

structure Inv (st : St) : Prop where
  /-- isolation: a writer registered under (node, lane) belongs to a downlink attached to exactly that path -/
  iso : ∀ n l ids id, subsGet st.subs n l = some ids → id ∈ ids →
    ∃ d ∈ st.dls, d.id = id ∧ d.node = n ∧ d.lane = l
  /-- completeness: while the task runs, every attached downlink whose far end is open is still registered -/
  compl : st.running = true → ∀ d ∈ st.dls, d.alive = true →
    ∃ ids, subsGet st.subs d.node d.lane = some ids ∧ d.id ∈ ids
  /-- a route for a node points at an agent channel that was opened for that node -/
  routes : ∀ n i, kGet st.routes n = some i → ∃ a, st.agents[i]? = some a ∧ a.node = n

theorem inv_init : Inv init := by
  constructor
  · intro n l ids id h; simp [init, subsGet, kGet] at h
  · intro _ d hd; simp [init] at hd
  · intro n i h; simp [init, kGet] at h

theorem subsGet_nil (n l : Str) : subsGet [] n l = none := by simp [subsGet, kGet]

theorem inv_stopAll (st : St) (extra : List Ev) : Inv (stopAll st extra).1 := by
  constructor
  · intro n l ids id h; simp [stopAll, subsGet_nil] at h
  · intro h; simp [stopAll] at h
  · intro n i h; simp [stopAll, kGet] at h

theorem killAg_get (as : List Ag) (i j : Nat) :
    (killAg as i)[j]? = (as[j]?).map fun a => if j = i then { a with alive := false } else a := by
  induction as generalizing i j with
  | nil => simp [killAg]
  | cons a as ih =>
    cases i with
    | zero => cases j <;> simp [killAg]
    | succ i =>
      cases j with
      | zero => simp [killAg]
      | succ j => simp [killAg, ih]

theorem getElem?_append_new (as : List Ag) (a : Ag) : (as ++ [a])[as.length]? = some a := by simp

theorem getElem?_append_old (as : List Ag) (x a : Ag) (i : Nat) (h : as[i]? = some a) : (as ++ [x])[i]? = some a := by
  have hi : i < as.length := by
    rcases Nat.lt_or_ge i as.length with h' | h'
    · exact h'
    · simp [List.getElem?_eq_none_iff.mpr h'] at h
  rw [List.getElem?_append_left hi]; exact h

theorem inv_routeRequest (st : St) (h : Inv st) (k : Kind) (n l b : Str) : Inv (routeRequest st k n l b).1 := by
  have add : ∀ (rs : List (Str × Nat)), (∀ n' i, kGet rs n' = some i → ∃ a, st.agents[i]? = some a ∧ a.node = n') →
      ∀ n' i, kGet (kSet rs n st.agents.length) n' = some i →
        ∃ a, (st.agents ++ [⟨n, true⟩])[i]? = some a ∧ a.node = n' := by
    intro rs hrs n' i hg
    rw [kGet_kSet] at hg
    by_cases e : n = n'
    · subst e
      simp only [if_true, Option.some.injEq] at hg
      subst hg
      exact ⟨⟨n, true⟩, getElem?_append_new _ _, rfl⟩
    · simp only [e, if_false] at hg
      obtain ⟨a, ha, hn⟩ := hrs n' i hg
      exact ⟨a, getElem?_append_old _ _ _ _ ha, hn⟩
  have del : ∀ n' i, kGet (kErase st.routes n) n' = some i → ∃ a, st.agents[i]? = some a ∧ a.node = n' := by
    intro n' i hg
    rw [kGet_kErase] at hg
    by_cases e : n = n'
    · simp [e] at hg
    · simp only [e, if_false] at hg
      exact h.routes n' i hg
  unfold routeRequest
  cases hr : kGet st.routes n with
  | none =>
    simp only
    by_cases hres : st.resolvable.contains n = true
    · simp only [hres, if_true]
      exact ⟨h.iso, h.compl, add st.routes h.routes⟩
    · simp only [hres]
      exact h
  | some i =>
    simp only
    by_cases ha : agAlive st i = true
    · simp only [ha, if_true]; exact h
    · simp only [ha]
      by_cases hres : st.resolvable.contains n = true
      · simp only [hres, if_true]
        exact ⟨h.iso, h.compl, add _ del⟩
      · simp only [hres]
        exact ⟨h.iso, h.compl, del⟩

theorem dlAlive_of_mem (st : St) (d : Dl) (hd : d ∈ st.dls) (ha : d.alive = true) : dlAlive st d.id = true := by
  simp only [dlAlive, List.any_eq_true]
  exact ⟨d, hd, by simp [ha]⟩

theorem inv_routeResponse (st : St) (h : Inv st) (k : Kind) (n l b : Str) : Inv (routeResponse st k n l b).1 := by
  unfold routeResponse
  cases hs : subsGet st.subs n l with
  | none => exact h
  | some ids =>
    simp only
    have hsome : (kGet st.subs n).isSome = true := by
      unfold subsGet at hs
      cases hk : kGet st.subs n with
      | none => simp [hk] at hs
      | some m => rfl
    constructor
    · intro n' l' ids' id hg hid
      simp only [subsGet_retain] at hg
      by_cases e : n = n' ∧ l = l'
      · obtain ⟨e1, e2⟩ := e
        subst e1; subst e2
        simp only [and_self, if_true, hsome, true_and] at hg
        by_cases hk : (List.filter (dlAlive st) ids).isEmpty = false
        · simp only [hk, if_true, Option.some.injEq] at hg
          subst hg
          exact h.iso n l ids id hs (List.mem_filter.mp hid).1
        · have hk' : (List.filter (dlAlive st) ids).isEmpty = true := by simpa using hk
          simp [hk'] at hg
      · simp only [e, if_false] at hg
        exact h.iso n' l' ids' id hg hid
    · intro hrun d hd ha
      obtain ⟨ids0, hg0, hin⟩ := h.compl hrun d hd ha
      simp only [subsGet_retain]
      by_cases e : n = d.node ∧ l = d.lane
      · obtain ⟨e1, e2⟩ := e
        subst e1; subst e2
        rw [hs] at hg0
        simp only [Option.some.injEq] at hg0
        subst hg0
        have hmem : d.id ∈ List.filter (dlAlive st) ids := by
          rw [List.mem_filter]; exact ⟨hin, dlAlive_of_mem st d hd ha⟩
        have hne : (List.filter (dlAlive st) ids).isEmpty = false := by
          cases hf : List.filter (dlAlive st) ids with
          | nil => rw [hf] at hmem; simp at hmem
          | cons _ _ => rfl
        simp only [and_self, if_true, hsome, hne]
        exact ⟨_, rfl, hmem⟩
      · simp only [e, if_false]
        exact ⟨ids0, hg0, hin⟩
    · exact h.routes

theorem inv_stepInput (st : St) (h : Inv st) (frame : Str) : Inv (stepInput st frame).1 := by
  unfold stepInput
  cases hp : peel frame with
  | unsup => exact h
  | err => exact inv_stopAll _ _
  | panic c => exact inv_stopAll _ _
  | auth => exact h
  | deauth => exact h
  | env k n l b =>
    simp only
    by_cases hq : isRequest k = true
    · simp only [hq, if_true]; exact inv_routeRequest st h k n l b
    · simp only [hq]; exact inv_routeResponse st h k n l b

theorem inv_stepFrame (st : St) (h : Inv st) (f : WsFrames.Frame) : Inv (stepFrame st f).1 := by
  unfold stepFrame
  split
  · have hasm : ∀ a, Inv { st with asm := a } := fun a => ⟨h.iso, h.compl, h.routes⟩
    split
    · exact hasm _
    · split
      · exact inv_stepInput _ (hasm _) _
      · exact inv_stopAll _ _
    · exact inv_stopAll _ _
    · exact inv_stopAll _ _
    · exact inv_stopAll _ _
  · exact h

theorem inv_stepFrames (st : St) (h : Inv st) (fs : List WsFrames.Frame) : Inv (stepFrames st fs).1 := by
  induction fs generalizing st with
  | nil => exact h
  | cons f fs ih => exact ih _ (inv_stepFrame st h f)

theorem mem_killDl {ds : List Dl} {id : Nat} {d : Dl} (h : d ∈ killDl ds id) :
    ∃ d0 ∈ ds, d.id = d0.id ∧ d.node = d0.node ∧ d.lane = d0.lane ∧ (d.alive = true → d0.alive = true ∧ d = d0) := by
  simp only [killDl, List.mem_map] at h
  obtain ⟨d0, hd0, e⟩ := h
  by_cases hid : d0.id = id
  · rw [if_pos hid] at e
    subst e
    exact ⟨d0, hd0, rfl, rfl, rfl, by simp⟩
  · rw [if_neg hid] at e
    subst e
    exact ⟨d0, hd0, rfl, rfl, rfl, fun ha => ⟨ha, rfl⟩⟩

theorem mem_killDl_of_mem {ds : List Dl} {id : Nat} {d0 : Dl} (h : d0 ∈ ds) :
    ∃ d ∈ killDl ds id, d.id = d0.id ∧ d.node = d0.node ∧ d.lane = d0.lane := by
  refine ⟨if d0.id = id then { d0 with alive := false } else d0, ?_, ?_⟩
  · simp only [killDl, List.mem_map]; exact ⟨d0, h, rfl⟩
  · by_cases hid : d0.id = id <;> simp [hid]

theorem inv_step (st : St) (h : Inv st) (op : Op) : Inv (step st op).1 := by
  cases op with
  | agents nodes => exact ⟨h.iso, h.compl, h.routes⟩
  | attach id node lane =>
    simp only [step]
    by_cases hr : st.running = true
    · simp only [hr, if_true]
      constructor
      · intro n l ids id' hg hid
        simp only [subsGet_push] at hg
        by_cases e : node = n ∧ lane = l
        · obtain ⟨e1, e2⟩ := e
          subst e1; subst e2
          simp only [and_self, if_true, Option.some.injEq] at hg
          subst hg
          rw [List.mem_append] at hid
          rcases hid with hid | hid
          · cases hs : subsGet st.subs node lane with
            | none => simp [hs] at hid
            | some ids0 =>
              simp only [hs, Option.getD_some] at hid
              obtain ⟨d, hd, e⟩ := h.iso node lane ids0 id' hs hid
              exact ⟨d, List.mem_append_left _ hd, e⟩
          · simp only [List.mem_singleton] at hid
            subst hid
            exact ⟨⟨id', node, lane, true⟩, by simp, rfl, rfl, rfl⟩
        · simp only [e, if_false] at hg
          obtain ⟨d, hd, e'⟩ := h.iso n l ids id' hg hid
          exact ⟨d, List.mem_append_left _ hd, e'⟩
      · intro _ d hd ha
        simp only [subsGet_push]
        rw [List.mem_append] at hd
        rcases hd with hd | hd
        · obtain ⟨ids0, hg0, hin⟩ := h.compl hr d hd ha
          by_cases e : node = d.node ∧ lane = d.lane
          · obtain ⟨e1, e2⟩ := e
            subst e1; subst e2
            simp only [and_self, if_true, hg0, Option.getD_some]
            exact ⟨_, rfl, List.mem_append_left _ hin⟩
          · simp only [e, if_false]; exact ⟨ids0, hg0, hin⟩
        · simp only [List.mem_singleton] at hd
          subst hd
          simp
      · exact h.routes
    · simp only [hr]; exact h
  | attachOne id node lane =>
    simp only [step]
    split
    · exact ⟨h.iso, h.compl, h.routes⟩
    · exact h
  | input frame =>
    simp only [step]
    by_cases hr : st.running = true
    · simp only [hr, if_true]; exact inv_stepInput st h frame
    · simp only [hr]; exact h
  | frames fs => exact inv_stepFrames st h fs
  | send s m =>
    simp only [step]
    split <;> exact h
  | burst srcs => exact ⟨h.iso, h.compl, h.routes⟩
  | detach s =>
    cases s with
    | dl id =>
      simp only [step]
      constructor
      · intro n l ids id' hg hid
        obtain ⟨d0, hd0, e⟩ := h.iso n l ids id' hg hid
        obtain ⟨d, hd, e1, e2, e3⟩ := mem_killDl_of_mem (id := id) hd0
        exact ⟨d, hd, by rw [e1, e.1], by rw [e2, e.2.1], by rw [e3, e.2.2]⟩
      · intro hr d hd ha
        obtain ⟨d0, hd0, _, _, _, hal⟩ := mem_killDl hd
        obtain ⟨ha0, e⟩ := hal ha
        subst e
        exact h.compl hr d hd0 ha0
      · exact h.routes
    | ow id => exact ⟨h.iso, h.compl, h.routes⟩
    | agent i =>
      simp only [step]
      refine ⟨h.iso, h.compl, ?_⟩
      intro n j hg
      obtain ⟨a, ha, hn⟩ := h.routes n j hg
      rw [killAg_get, ha]
      by_cases e : j = i
      · exact ⟨{ a with alive := false }, by simp [e], hn⟩
      · exact ⟨a, by simp [e], hn⟩
  | stop =>
    simp only [step]
    by_cases hr : st.running = true
    · simp only [hr, if_true]; exact inv_stopAll _ _
    · simp only [hr]; exact h

theorem inv_run (st : St) (h : Inv st) (ops : List Op) : Inv (run st ops) := by
  induction ops generalizing st with
  | nil => exact h
  | cons op ops ih => exact ih _ (inv_step st h op)

end SwimVerif.Routing
