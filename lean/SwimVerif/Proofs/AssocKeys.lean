/-
Key-set lemmas for the association lists of the models (`alGet` / `alSet` / `alErase`): the list of keys, `Nodup` of the
keys under `alSet` / `alErase`, membership vs. `alGet`, and `eraseDups.length = length ↔ Nodup` (the executable form in
which the models' Boolean invariants state "no duplicate key").
-/
import SwimVerif.Proofs.AssocList

namespace SwimVerif

variable {α : Type}

def alKeys (l : List (Nat × α)) : List Nat := l.map (·.1)

@[simp] theorem alKeys_nil : alKeys ([] : List (Nat × α)) = [] := rfl
@[simp] theorem alKeys_cons (p : Nat × α) (l : List (Nat × α)) : alKeys (p :: l) = p.1 :: alKeys l := rfl

theorem alGet_some_mem {l : List (Nat × α)} {k : Nat} {v : α} (h : alGet l k = some v) : (k, v) ∈ l := by
  induction l with
  | nil => simp [alGet] at h
  | cons p rest ih =>
    obtain ⟨a, b⟩ := p
    by_cases h1 : a = k
    · subst h1; simp [alGet] at h; simp [h]
    · simp [alGet, h1] at h; simp [ih h]

theorem alGet_eq_none_iff {l : List (Nat × α)} {k : Nat} : alGet l k = none ↔ k ∉ alKeys l := by
  induction l with
  | nil => simp [alGet]
  | cons p rest ih =>
    obtain ⟨a, b⟩ := p
    by_cases h1 : a = k
    · subst h1; simp [alGet]
    · simp [alGet, h1, ih]; intro _ h; exact absurd h.symm h1

theorem alGet_isSome_of_mem_keys {l : List (Nat × α)} {k : Nat} (h : k ∈ alKeys l) : ∃ v, alGet l k = some v := by
  cases hg : alGet l k with
  | none => exact absurd h (alGet_eq_none_iff.mp hg)
  | some v => exact ⟨v, rfl⟩

theorem alGet_of_mem_nodup {l : List (Nat × α)} (hn : (alKeys l).Nodup) {p : Nat × α} (hp : p ∈ l) :
    alGet l p.1 = some p.2 := by
  induction l with
  | nil => simp at hp
  | cons q rest ih =>
    obtain ⟨a, b⟩ := q
    simp only [alKeys_cons, List.nodup_cons] at hn
    rcases List.mem_cons.mp hp with h | h
    · subst h; simp [alGet]
    · have hne : a ≠ p.1 := by
        intro he; apply hn.1; rw [he]; exact List.mem_map.mpr ⟨p, h, rfl⟩
      simp [alGet, hne, ih hn.2 h]

theorem alKeys_alSet_of_none {l : List (Nat × α)} {k : Nat} (v : α) (h : alGet l k = none) :
    alKeys (alSet l k v) = alKeys l ++ [k] := by
  induction l with
  | nil => simp [alSet]
  | cons p rest ih =>
    obtain ⟨a, b⟩ := p
    by_cases h1 : a = k
    · subst h1; simp [alGet] at h
    · simp [alGet, h1] at h; simp [alSet, h1, ih h]

theorem alKeys_alSet_of_some {l : List (Nat × α)} {k : Nat} (v : α) {w : α} (h : alGet l k = some w) :
    alKeys (alSet l k v) = alKeys l := by
  induction l with
  | nil => simp [alGet] at h
  | cons p rest ih =>
    obtain ⟨a, b⟩ := p
    by_cases h1 : a = k
    · subst h1; simp [alSet]
    · simp [alGet, h1] at h; simp [alSet, h1, ih h]

theorem nodup_alKeys_alSet {l : List (Nat × α)} (k : Nat) (v : α) (hn : (alKeys l).Nodup) :
    (alKeys (alSet l k v)).Nodup := by
  cases hg : alGet l k with
  | none =>
    rw [alKeys_alSet_of_none v hg]
    exact List.nodup_append.mpr ⟨hn, by simp, by
      intro a ha b hb; simp at hb; subst hb; intro he; subst he; exact alGet_eq_none_iff.mp hg ha⟩
  | some w => rw [alKeys_alSet_of_some v hg]; exact hn

theorem alKeys_alErase (l : List (Nat × α)) (k : Nat) : alKeys (alErase l k) = (alKeys l).filter (fun x => x != k) := by
  induction l with
  | nil => simp [alErase]
  | cons p rest ih =>
    obtain ⟨a, b⟩ := p
    by_cases h1 : a = k
    · subst h1; simp [alErase, ih]
    · simp [alErase, h1, ih]

theorem nodup_alKeys_alErase {l : List (Nat × α)} (k : Nat) (hn : (alKeys l).Nodup) : (alKeys (alErase l k)).Nodup := by
  rw [alKeys_alErase]; exact hn.sublist List.filter_sublist

theorem alErase_of_not_mem {l : List (Nat × α)} {k : Nat} (h : k ∉ alKeys l) : alErase l k = l := by
  induction l with
  | nil => simp [alErase]
  | cons p rest ih =>
    obtain ⟨a, b⟩ := p
    simp only [alKeys_cons, List.mem_cons, not_or] at h
    have h1 : a ≠ k := fun he => h.1 he.symm
    simp [alErase, h1, ih h.2]

/-! `eraseDups` -/

theorem length_eraseDups_le : ∀ (n : Nat) (l : List Nat), l.length ≤ n → l.eraseDups.length ≤ l.length := by
  intro n
  induction n with
  | zero => intro l h; cases l <;> simp_all
  | succ n ih =>
    intro l h
    cases l with
    | nil => simp
    | cons a as =>
      rw [List.eraseDups_cons]
      have h1 := List.length_filter_le (fun b => !b == a) as
      have h2 := ih (as.filter (fun b => !b == a)) (by simp at h; omega)
      simp only [List.length_cons]; omega

theorem eraseDups_length_eq_iff_nodup : ∀ (n : Nat) (l : List Nat), l.length ≤ n →
    (l.eraseDups.length = l.length ↔ l.Nodup) := by
  intro n
  induction n with
  | zero => intro l h; cases l <;> simp_all
  | succ n ih =>
    intro l h
    cases l with
    | nil => simp
    | cons a as =>
      rw [List.eraseDups_cons]
      have h1 := List.length_filter_le (fun b => !b == a) as
      have h2 := length_eraseDups_le _ (as.filter (fun b => !b == a)) (Nat.le_refl _)
      simp only [List.length_cons, List.nodup_cons]
      constructor
      · intro he
        have h3 : (as.filter (fun b => !b == a)).length = as.length := by omega
        have h4 := List.length_filter_eq_length_iff.mp h3
        have h5 : as.filter (fun b => !b == a) = as := List.filter_eq_self.mpr h4
        rw [h5] at he
        refine ⟨?_, (ih as (by simp at h; omega)).mp (by omega)⟩
        intro hm; have := h4 a hm; simp at this
      · intro ⟨hna, hnd⟩
        have h5 : as.filter (fun b => !b == a) = as := by
          apply List.filter_eq_self.mpr; intro b hb; simp; intro he; subst he; exact hna hb
        rw [h5]
        have := (ih as (by simp at h; omega)).mpr hnd
        omega

theorem eraseDups_length_beq_iff_nodup (l : List Nat) : (l.eraseDups.length == l.length) = true ↔ l.Nodup := by
  rw [beq_iff_eq]; exact eraseDups_length_eq_iff_nodup _ l (Nat.le_refl _)

end SwimVerif
