import SwimVerif.Model.ValueOrd

set_option linter.unusedSimpArgs false
set_option linter.unusedVariables false
namespace SwimVerif.ValueOrd

/-! ### the algebra of the laws on `Ordering` -/

theorem lawTrans_then : ∀ x12 x23 x13 y12 y23 y13 : Ordering,
    lawTrans x12 x23 x13 = true → lawTrans y12 y23 y13 = true →
    lawTrans (x12.then y12) (x23.then y23) (x13.then y13) = true := by
  intro x12 x23 x13 y12 y23 y13
  cases x12 <;> cases x23 <;> cases x13 <;> cases y12 <;> cases y23 <;> cases y13 <;> decide

theorem lawTrans_any_lt_lt (o : Ordering) : lawTrans o .lt .lt = true := by cases o <;> rfl
theorem lawTrans_lt_any_lt (o : Ordering) : lawTrans .lt o .lt = true := by cases o <;> rfl
theorem lawTrans_any_gt_gt (o : Ordering) : lawTrans o .gt .gt = true := by cases o <;> rfl
theorem lawTrans_gt_any_gt (o : Ordering) : lawTrans .gt o .gt = true := by cases o <;> rfl
theorem lawTrans_lt_gt_any (o : Ordering) : lawTrans .lt .gt o = true := by cases o <;> rfl
theorem lawTrans_gt_lt_any (o : Ordering) : lawTrans .gt .lt o = true := by cases o <;> rfl

/-! ### scalars -/

theorem cmpInt_swap (a b : Int) : cmpInt b a = (cmpInt a b).swap := by
  grind [cmpInt, Ordering.swap]

theorem cmpInt_eq_iff (a b : Int) : cmpInt a b = .eq ↔ a = b := by
  grind [cmpInt]

theorem cmpInt_lt_iff (a b : Int) : cmpInt a b = .lt ↔ a < b := by
  grind [cmpInt]

theorem cmpInt_gt_iff (a b : Int) : cmpInt a b = .gt ↔ b < a := by
  grind [cmpInt]

theorem cmpInt_trans (a b c : Int) : lawTrans (cmpInt a b) (cmpInt b c) (cmpInt a c) = true := by
  grind [cmpInt, lawTrans]

theorem cmpBool_swap (p q : Bool) : cmpBool q p = (cmpBool p q).swap := by
  cases p <;> cases q <;> rfl

theorem cmpBool_eq_iff (p q : Bool) : cmpBool p q = .eq ↔ p = q := by
  cases p <;> cases q <;> decide

theorem cmpBool_trans (p q r : Bool) : lawTrans (cmpBool p q) (cmpBool q r) (cmpBool p r) = true := by
  cases p <;> cases q <;> cases r <;> rfl

theorem cmpBytes_swap (xs ys : Bytes) : cmpBytes ys xs = (cmpBytes xs ys).swap := by
  fun_induction cmpBytes xs ys <;> grind [cmpBytes, Ordering.swap]

theorem cmpBytes_eq_iff (xs ys : Bytes) : cmpBytes xs ys = .eq ↔ xs = ys := by
  fun_induction cmpBytes xs ys <;> grind [cmpBytes]

theorem cmpBytes_trans (xs ys zs : Bytes) :
    lawTrans (cmpBytes xs ys) (cmpBytes ys zs) (cmpBytes xs zs) = true := by
  induction xs generalizing ys zs with
  | nil => cases ys <;> cases zs <;> simp [cmpBytes, lawTrans]
  | cons x xs ih =>
    cases ys with
    | nil => cases zs <;> simp [cmpBytes, lawTrans]
    | cons y ys =>
      cases zs with
      | nil => simp [cmpBytes, lawTrans]
      | cons z zs =>
        have := ih ys zs
        simp only [cmpBytes]
        rcases Nat.lt_trichotomy x y with h1 | h1 | h1 <;> rcases Nat.lt_trichotomy y z with h2 | h2 | h2
        all_goals first
          | (subst h1; subst h2; simpa using this)
          | (subst h1; simp [h2, Nat.lt_asymm h2, Nat.ne_of_gt h2, Nat.ne_of_lt h2, lawTrans_any_lt_lt, lawTrans_any_gt_gt])
          | (subst h2; simp [h1, Nat.lt_asymm h1, Nat.ne_of_gt h1, Nat.ne_of_lt h1, lawTrans_lt_any_lt, lawTrans_gt_any_gt])
          | (have h3 : x < z := by omega
             simp [h1, h2, h3, lawTrans])
          | (have h3 : z < x := by omega
             simp [h1, h2, h3, Nat.lt_asymm h1, Nat.lt_asymm h2, Nat.lt_asymm h3, Nat.ne_of_gt h1, Nat.ne_of_gt h2, Nat.ne_of_gt h3, lawTrans])
          | (simp [h1, h2, Nat.lt_asymm h1, Nat.lt_asymm h2, Nat.ne_of_gt h1, Nat.ne_of_gt h2, Nat.ne_of_lt h1, Nat.ne_of_lt h2, lawTrans_lt_gt_any, lawTrans_gt_lt_any])

/-! ### the fragment `F` and a uniform view of its values -/

/-- Well-formed (ranges of the fixed-width kinds, attributes first) and free of `Float64`. -/
def goodV (a : Val) : Prop := a.wf = true ∧ a.inF = true
def goodE (e : Elems) : Prop := Elems.wf e = true ∧ Elems.inF e = true

inductive View where
  | recd (es : Elems)
  | text (s : Bytes)
  | num (n : Int)
  | bool (b : Bool)
  | extant
  | dat (b : Bytes)
  | other

def view : Val → View
  | .extant => .extant
  | .bool b => .bool b
  | .i32 n => .num n
  | .i64 n => .num n
  | .u32 n => .num n
  | .u64 n => .num n
  | .bigint n => .num n
  | .biguint n => .num n
  | .text s => .text s
  | .record es => .recd es
  | .f64 _ => .other
  | .data b => .dat b

def vrank : View → Nat
  | .dat _ => 0
  | .recd _ => 1
  | .text _ => 2
  | .num _ => 3
  | .bool _ => 4
  | .extant => 5
  | .other => 6

/-- On `F`, `compare` is: first by kind class (`Data < Record < Text < number < Boolean < Extant`), then within
the class. -/
def viewCmp (x y : View) : Ordering :=
  match x, y with
  | .recd e1, .recd e2 => Elems.cmp e1 e2
  | .text s, .text t => cmpBytes s t
  | .num n, .num m => cmpInt n m
  | .bool p, .bool q => cmpBool p q
  | .extant, .extant => .eq
  | .dat x, .dat y => cmpBytes x y
  | .other, .other => .eq
  | _, _ => if vrank x < vrank y then .lt else .gt

theorem view_cmp (a b : Val) (ha : goodV a) (hb : goodV b) : a.cmp b = viewCmp (view a) (view b) := by
  unfold goodV at ha hb
  cases a <;> cases b <;>
    simp [Val.wf, Val.inF, inI32, inI64, inU32, inU64] at ha hb <;>
    simp [Val.cmp, cmpFlat, view, viewCmp, vrank, cmpSU, cmpUS] <;>
    grind [cmpInt]

def viewEq (x y : View) : Bool :=
  match x, y with
  | .recd e1, .recd e2 => Elems.eq e1 e2
  | .text s, .text t => s == t
  | .num n, .num m => n == m
  | .bool p, .bool q => p == q
  | .extant, .extant => true
  | .dat x, .dat y => x == y
  | .other, .other => true
  | _, _ => false

theorem view_eq (a b : Val) (ha : goodV a) (hb : goodV b) : a.eq b = viewEq (view a) (view b) := by
  unfold goodV at ha hb
  cases a <;> cases b <;>
    simp [Val.wf, Val.inF, inI32, inI64, inU32, inU64] at ha hb <;>
    simp [Val.eq, eqFlat, view, viewEq, inI32, inI64, inU32, inU64] <;>
    grind

def viewKey : View → List Int
  | .recd es => (5 :: (es.nAttrs : Int) :: Elems.attrKeys es) ++ ((es.nItems : Int) :: Elems.itemKeys es)
  | .text s => 4 :: (bytesKey s ++ [255])
  | .num n => intKey n
  | .bool p => [3, if p then 1 else 0]
  | .extant => [0]
  | .dat b => 7 :: (b.length : Int) :: bytesKey b
  | .other => []

theorem view_key (a : Val) (ha : goodV a) : a.hashKey = viewKey (view a) := by
  unfold goodV at ha
  cases a <;>
    simp [Val.wf, Val.inF, inI32, inI64, inU32, inU64] at ha <;>
    simp [Val.hashKey, view, viewKey, intKey, inI128] <;>
    grind

theorem view_recd {a : Val} {es : Elems} (h : view a = .recd es) : a = .record es := by
  cases a <;> simp [view] at h
  subst h; rfl

theorem goodV_record {es : Elems} (h : goodV (.record es)) : goodE es := by
  simp [goodV, Val.wf, Val.inF] at h
  exact ⟨h.1.2, h.2⟩

theorem goodE_attr {n : Bytes} {v : Val} {tl : Elems} (h : goodE (.attr n v tl)) : goodV v ∧ goodE tl := by
  simp [goodE, goodV, Elems.wf, Elems.inF] at *
  exact ⟨⟨h.1.1, h.2.1⟩, ⟨h.1.2, h.2.2⟩⟩

theorem goodE_item {v : Val} {tl : Elems} (h : goodE (.item v tl)) : goodV v ∧ goodE tl := by
  simp [goodE, goodV, Elems.wf, Elems.inF] at *
  exact ⟨⟨h.1.1, h.2.1⟩, ⟨h.1.2, h.2.2⟩⟩

theorem goodE_slot {k v : Val} {tl : Elems} (h : goodE (.slot k v tl)) : goodV k ∧ goodV v ∧ goodE tl := by
  simp [goodE, goodV, Elems.wf, Elems.inF] at *
  exact ⟨⟨h.1.1.1, h.2.1.1⟩, ⟨h.1.1.2, h.2.1.2⟩, ⟨h.1.2, h.2.2⟩⟩

/-! ### antisymmetry: `cmp b a = (cmp a b).swap` -/

def SwapV (a : Val) : Prop := goodV a → ∀ b, goodV b → b.cmp a = (a.cmp b).swap
def SwapE (e : Elems) : Prop := goodE e → ∀ e2, goodE e2 → Elems.cmp e2 e = (Elems.cmp e e2).swap

theorem viewCmp_swap (x y : View)
    (hrec : ∀ e1 e2, x = .recd e1 → y = .recd e2 → Elems.cmp e2 e1 = (Elems.cmp e1 e2).swap) :
    viewCmp y x = (viewCmp x y).swap := by
  cases x <;> cases y <;> simp [viewCmp, vrank, Ordering.swap]
  · exact hrec _ _ rfl rfl
  · exact cmpBytes_swap _ _
  · exact cmpInt_swap _ _
  · exact cmpBool_swap _ _
  · exact cmpBytes_swap _ _

theorem swapV_of (a : Val) (h : ∀ es, a = .record es → SwapE es) : SwapV a := by
  intro ha b hb
  rw [view_cmp b a hb ha, view_cmp a b ha hb]
  apply viewCmp_swap
  intro e1 e2 h1 h2
  have h1' := view_recd h1
  have h2' := view_recd h2
  subst h1'; subst h2'
  exact h e1 rfl (goodV_record ha) e2 (goodV_record hb)

theorem swapV_all (a : Val) : SwapV a := by
  induction a using Val.rec (motive_2 := SwapE) with
  | record es ih => exact swapV_of _ (by intro es' h; cases h; exact ih)
  | nil =>
    intro _ e2 _
    cases e2 <;> simp [Elems.cmp, Ordering.swap]
  | attr n v tl ihv ihtl =>
    intro he e2 he2
    have hg := goodE_attr he
    cases e2 with
    | attr n2 v2 t2 =>
      have hg2 := goodE_attr he2
      simp only [Elems.cmp, Ordering.swap_then]
      rw [cmpBytes_swap n n2, ihv hg.1 v2 hg2.1, ihtl hg.2 t2 hg2.2]
    | _ => simp [Elems.cmp, Ordering.swap]
  | item v tl ihv ihtl =>
    intro he e2 he2
    have hg := goodE_item he
    cases e2 with
    | item v2 t2 =>
      have hg2 := goodE_item he2
      simp only [Elems.cmp, Ordering.swap_then]
      rw [ihv hg.1 v2 hg2.1, ihtl hg.2 t2 hg2.2]
    | _ => simp [Elems.cmp, Ordering.swap]
  | slot k v tl ihk ihv ihtl =>
    intro he e2 he2
    have hg := goodE_slot he
    cases e2 with
    | slot k2 v2 t2 =>
      have hg2 := goodE_slot he2
      simp only [Elems.cmp, Ordering.swap_then]
      rw [ihk hg.1 k2 hg2.1, ihv hg.2.1 v2 hg2.2.1, ihtl hg.2.2 t2 hg2.2.2]
    | _ => simp [Elems.cmp, Ordering.swap]
  | _ => exact swapV_of _ (by intro es h; cases h)

/-! ### transitivity -/

def TransV (a : Val) : Prop :=
  goodV a → ∀ b c, goodV b → goodV c → lawTrans (a.cmp b) (b.cmp c) (a.cmp c) = true
def TransE (e : Elems) : Prop :=
  goodE e → ∀ e2 e3, goodE e2 → goodE e3 → lawTrans (e.cmp e2) (e2.cmp e3) (e.cmp e3) = true

theorem viewCmp_trans (x y z : View)
    (hrec : ∀ e1 e2 e3, x = .recd e1 → y = .recd e2 → z = .recd e3 →
      lawTrans (e1.cmp e2) (e2.cmp e3) (e1.cmp e3) = true) :
    lawTrans (viewCmp x y) (viewCmp y z) (viewCmp x z) = true := by
  cases x <;> cases y <;> cases z <;>
    simp [viewCmp, vrank, lawTrans_any_lt_lt, lawTrans_lt_any_lt, lawTrans_any_gt_gt, lawTrans_gt_any_gt,
      lawTrans_lt_gt_any, lawTrans_gt_lt_any, cmpInt_trans, cmpBytes_trans, cmpBool_trans] <;>
    first
      | exact hrec _ _ _ rfl rfl rfl
      | rfl

theorem transV_of (a : Val) (h : ∀ es, a = .record es → TransE es) : TransV a := by
  intro ha b c hb hc
  rw [view_cmp a b ha hb, view_cmp b c hb hc, view_cmp a c ha hc]
  apply viewCmp_trans
  intro e1 e2 e3 h1 h2 h3
  have h1' := view_recd h1
  have h2' := view_recd h2
  have h3' := view_recd h3
  subst h1'; subst h2'; subst h3'
  exact h e1 rfl (goodV_record ha) e2 e3 (goodV_record hb) (goodV_record hc)

theorem transV_all (a : Val) : TransV a := by
  induction a using Val.rec (motive_2 := TransE) with
  | record es ih => exact transV_of _ (by intro es' h; cases h; exact ih)
  | nil =>
    intro _ e2 e3 _ _
    cases e2 <;> cases e3 <;> simp [Elems.cmp, lawTrans_lt_any_lt, lawTrans_lt_gt_any] <;> rfl
  | attr n v tl ihv ihtl =>
    intro he e2 e3 he2 he3
    have hg := goodE_attr he
    cases e2 with
    | attr n2 v2 t2 =>
      have hg2 := goodE_attr he2
      cases e3 with
      | attr n3 v3 t3 =>
        have hg3 := goodE_attr he3
        simp only [Elems.cmp]
        exact lawTrans_then _ _ _ _ _ _
          (lawTrans_then _ _ _ _ _ _ (cmpBytes_trans n n2 n3) (ihv hg.1 v2 v3 hg2.1 hg3.1))
          (ihtl hg.2 t2 t3 hg2.2 hg3.2)
      | _ => simp [Elems.cmp, lawTrans_any_lt_lt, lawTrans_any_gt_gt]
    | _ =>
      cases e3 <;> simp [Elems.cmp, lawTrans_any_lt_lt, lawTrans_lt_any_lt, lawTrans_any_gt_gt,
        lawTrans_gt_any_gt, lawTrans_lt_gt_any, lawTrans_gt_lt_any] <;> rfl
  | item v tl ihv ihtl =>
    intro he e2 e3 he2 he3
    have hg := goodE_item he
    cases e2 with
    | item v2 t2 =>
      have hg2 := goodE_item he2
      cases e3 with
      | item v3 t3 =>
        have hg3 := goodE_item he3
        simp only [Elems.cmp]
        exact lawTrans_then _ _ _ _ _ _ (ihv hg.1 v2 v3 hg2.1 hg3.1) (ihtl hg.2 t2 t3 hg2.2 hg3.2)
      | _ => simp [Elems.cmp, lawTrans_any_lt_lt, lawTrans_any_gt_gt]
    | _ =>
      cases e3 <;> simp [Elems.cmp, lawTrans_any_lt_lt, lawTrans_lt_any_lt, lawTrans_any_gt_gt,
        lawTrans_gt_any_gt, lawTrans_lt_gt_any, lawTrans_gt_lt_any] <;> rfl
  | slot k v tl ihk ihv ihtl =>
    intro he e2 e3 he2 he3
    have hg := goodE_slot he
    cases e2 with
    | slot k2 v2 t2 =>
      have hg2 := goodE_slot he2
      cases e3 with
      | slot k3 v3 t3 =>
        have hg3 := goodE_slot he3
        simp only [Elems.cmp]
        exact lawTrans_then _ _ _ _ _ _
          (lawTrans_then _ _ _ _ _ _ (ihk hg.1 k2 k3 hg2.1 hg3.1) (ihv hg.2.1 v2 v3 hg2.2.1 hg3.2.1))
          (ihtl hg.2.2 t2 t3 hg2.2.2 hg3.2.2)
      | _ => simp [Elems.cmp, lawTrans_any_lt_lt, lawTrans_any_gt_gt]
    | _ =>
      cases e3 <;> simp [Elems.cmp, lawTrans_any_lt_lt, lawTrans_lt_any_lt, lawTrans_any_gt_gt,
        lawTrans_gt_any_gt, lawTrans_lt_gt_any, lawTrans_gt_lt_any] <;> rfl
  | _ => exact transV_of _ (by intro es h; cases h)

/-! ### `cmp = Equal ⇔ eq` -/

def CmpEqV (a : Val) : Prop := goodV a → ∀ b, goodV b → (a.cmp b = .eq ↔ a.eq b = true)
def CmpEqE (e : Elems) : Prop := goodE e → ∀ e2, goodE e2 → (e.cmp e2 = .eq ↔ Elems.eq e e2 = true)

theorem viewCmp_eq_iff (x y : View)
    (hrec : ∀ e1 e2, x = .recd e1 → y = .recd e2 → (e1.cmp e2 = .eq ↔ Elems.eq e1 e2 = true)) :
    viewCmp x y = .eq ↔ viewEq x y = true := by
  cases x <;> cases y <;>
    simp [viewCmp, viewEq, vrank, cmpInt_eq_iff, cmpBytes_eq_iff, cmpBool_eq_iff]
  exact hrec _ _ rfl rfl

theorem cmpEqV_of (a : Val) (h : ∀ es, a = .record es → CmpEqE es) : CmpEqV a := by
  intro ha b hb
  rw [view_cmp a b ha hb, view_eq a b ha hb]
  apply viewCmp_eq_iff
  intro e1 e2 h1 h2
  have h1' := view_recd h1
  have h2' := view_recd h2
  subst h1'; subst h2'
  exact h e1 rfl (goodV_record ha) e2 (goodV_record hb)

theorem cmpEqV_all (a : Val) : CmpEqV a := by
  induction a using Val.rec (motive_2 := CmpEqE) with
  | record es ih => exact cmpEqV_of _ (by intro es' h; cases h; exact ih)
  | nil =>
    intro _ e2 _
    cases e2 <;> simp [Elems.cmp, Elems.eq]
  | attr n v tl ihv ihtl =>
    intro he e2 he2
    have hg := goodE_attr he
    cases e2 with
    | attr n2 v2 t2 =>
      have hg2 := goodE_attr he2
      simp only [Elems.cmp, Elems.eq, Ordering.then_eq_eq, Bool.and_eq_true, beq_iff_eq]
      rw [cmpBytes_eq_iff, ihv hg.1 v2 hg2.1, ihtl hg.2 t2 hg2.2]
    | _ => simp [Elems.cmp, Elems.eq]
  | item v tl ihv ihtl =>
    intro he e2 he2
    have hg := goodE_item he
    cases e2 with
    | item v2 t2 =>
      have hg2 := goodE_item he2
      simp only [Elems.cmp, Elems.eq, Ordering.then_eq_eq, Bool.and_eq_true]
      rw [ihv hg.1 v2 hg2.1, ihtl hg.2 t2 hg2.2]
    | _ => simp [Elems.cmp, Elems.eq]
  | slot k v tl ihk ihv ihtl =>
    intro he e2 he2
    have hg := goodE_slot he
    cases e2 with
    | slot k2 v2 t2 =>
      have hg2 := goodE_slot he2
      simp only [Elems.cmp, Elems.eq, Ordering.then_eq_eq, Bool.and_eq_true]
      rw [ihk hg.1 k2 hg2.1, ihv hg.2.1 v2 hg2.2.1, ihtl hg.2.2 t2 hg2.2.2]
    | _ => simp [Elems.cmp, Elems.eq]
  | _ => exact cmpEqV_of _ (by intro es h; cases h)

/-! ### `eq ⇒` same hash key -/

def HashV (a : Val) : Prop := goodV a → ∀ b, goodV b → a.eq b = true → a.hashKey = b.hashKey
def HashE (e : Elems) : Prop :=
  goodE e → ∀ e2, goodE e2 → Elems.eq e e2 = true →
    e.nAttrs = e2.nAttrs ∧ e.nItems = e2.nItems ∧ Elems.attrKeys e = Elems.attrKeys e2 ∧
      Elems.itemKeys e = Elems.itemKeys e2

theorem viewEq_key (x y : View)
    (hrec : ∀ e1 e2, x = .recd e1 → y = .recd e2 → Elems.eq e1 e2 = true →
      e1.nAttrs = e2.nAttrs ∧ e1.nItems = e2.nItems ∧ Elems.attrKeys e1 = Elems.attrKeys e2 ∧
        Elems.itemKeys e1 = Elems.itemKeys e2) :
    viewEq x y = true → viewKey x = viewKey y := by
  cases x <;> cases y <;> simp [viewEq, viewKey]
  · intro h
    have := hrec _ _ rfl rfl h
    simp [this.1, this.2.1, this.2.2.1, this.2.2.2]
  all_goals (intro h; subst h; first | rfl | exact ⟨rfl, rfl⟩)

theorem hashV_of (a : Val) (h : ∀ es, a = .record es → HashE es) : HashV a := by
  intro ha b hb
  rw [view_eq a b ha hb, view_key a ha, view_key b hb]
  apply viewEq_key
  intro e1 e2 h1 h2
  have h1' := view_recd h1
  have h2' := view_recd h2
  subst h1'; subst h2'
  exact h e1 rfl (goodV_record ha) e2 (goodV_record hb)

theorem hashV_all (a : Val) : HashV a := by
  induction a using Val.rec (motive_2 := HashE) with
  | record es ih => exact hashV_of _ (by intro es' h; cases h; exact ih)
  | nil =>
    intro _ e2 _
    cases e2 <;> simp [Elems.eq]
  | attr n v tl ihv ihtl =>
    intro he e2 he2
    have hg := goodE_attr he
    cases e2 with
    | attr n2 v2 t2 =>
      have hg2 := goodE_attr he2
      simp only [Elems.eq, Bool.and_eq_true, beq_iff_eq]
      intro h
      have h1 := ihv hg.1 v2 hg2.1 h.1.2
      have h2 := ihtl hg.2 t2 hg2.2 h.2
      simp [Elems.nAttrs, Elems.nItems, Elems.attrKeys, Elems.itemKeys, h.1.1, h1, h2.1, h2.2.1, h2.2.2.1, h2.2.2.2]
    | _ => simp [Elems.eq]
  | item v tl ihv ihtl =>
    intro he e2 he2
    have hg := goodE_item he
    cases e2 with
    | item v2 t2 =>
      have hg2 := goodE_item he2
      simp only [Elems.eq, Bool.and_eq_true]
      intro h
      have h1 := ihv hg.1 v2 hg2.1 h.1
      have h2 := ihtl hg.2 t2 hg2.2 h.2
      simp [Elems.nAttrs, Elems.nItems, Elems.attrKeys, Elems.itemKeys, h1, h2.1, h2.2.1, h2.2.2.1, h2.2.2.2]
    | _ => simp [Elems.eq]
  | slot k v tl ihk ihv ihtl =>
    intro he e2 he2
    have hg := goodE_slot he
    cases e2 with
    | slot k2 v2 t2 =>
      have hg2 := goodE_slot he2
      simp only [Elems.eq, Bool.and_eq_true]
      intro h
      have h0 := ihk hg.1 k2 hg2.1 h.1.1
      have h1 := ihv hg.2.1 v2 hg2.2.1 h.1.2
      have h2 := ihtl hg.2.2 t2 hg2.2.2 h.2
      simp [Elems.nAttrs, Elems.nItems, Elems.attrKeys, Elems.itemKeys, h0, h1, h2.1, h2.2.1, h2.2.2.1, h2.2.2.2]
    | _ => simp [Elems.eq]
  | _ => exact hashV_of _ (by intro es h; cases h)

/-! ### sorting keys of the fragment `F` (what `drop_or_take` relies on) -/

/-- `i` goes before `j`: strictly smaller, or `Equal` and earlier in the input (stability). -/
def Before (vs : List Val) (i j : Nat) : Prop :=
  Val.cmp (vs.getD i .extant) (vs.getD j .extant) = .lt ∨
    (Val.cmp (vs.getD i .extant) (vs.getD j .extant) = .eq ∧ i < j)

theorem goodV_getD (vs : List Val) (h : ∀ v ∈ vs, goodV v) (i : Nat) : goodV (vs.getD i .extant) := by
  rw [List.getD_eq_getElem?_getD]
  cases hi : vs[i]? with
  | none => exact ⟨rfl, rfl⟩
  | some v => exact h v (List.mem_of_getElem? hi)

theorem mem_insertSorted (vs : List Val) (x y : Nat) (l : List Nat) :
    y ∈ insertSorted vs x l ↔ y = x ∨ y ∈ l := by
  induction l with
  | nil => simp [insertSorted]
  | cons z zs ih =>
    simp only [insertSorted]
    split
    · simp
    · simp [ih]; grind

theorem perm_insertSorted (vs : List Val) (x : Nat) (l : List Nat) : (insertSorted vs x l).Perm (x :: l) := by
  induction l with
  | nil => simp [insertSorted]
  | cons z zs ih =>
    simp only [insertSorted]
    split
    · exact List.Perm.refl _
    · exact (List.Perm.cons z ih).trans (List.Perm.swap x z zs)

theorem pairwise_insertSorted (vs : List Val) (h : ∀ v ∈ vs, goodV v) (x : Nat) (l : List Nat)
    (hl : ∀ y ∈ l, x < y) (hs : l.Pairwise (Before vs)) : (insertSorted vs x l).Pairwise (Before vs) := by
  induction l with
  | nil => simp [insertSorted]
  | cons y ys ih =>
    have hy := List.pairwise_cons.1 hs
    simp only [insertSorted]
    split
    · rename_i hc
      refine List.pairwise_cons.2 ⟨?_, hs⟩
      intro z hz
      have hxz : x < z := hl z hz
      have hxy : Val.cmp (vs.getD x .extant) (vs.getD y .extant) ≠ .gt := by simpa using hc
      rcases List.mem_cons.1 hz with rfl | hz'
      · unfold Before
        revert hxy
        cases Val.cmp (vs.getD x .extant) (vs.getD z .extant) <;> simp [hxz]
      · have hyz := hy.1 z hz'
        have ht := transV_all _ (goodV_getD vs h x) _ _ (goodV_getD vs h y) (goodV_getD vs h z)
        unfold Before at hyz ⊢
        revert hxy hyz ht
        cases Val.cmp (vs.getD x .extant) (vs.getD y .extant) <;>
          cases Val.cmp (vs.getD y .extant) (vs.getD z .extant) <;>
          cases Val.cmp (vs.getD x .extant) (vs.getD z .extant) <;> simp [lawTrans, hxz]
    · rename_i hc
      have hgt : Val.cmp (vs.getD x .extant) (vs.getD y .extant) = .gt := by simpa using hc
      refine List.pairwise_cons.2 ⟨?_, ih (fun z hz => hl z (List.mem_cons_of_mem _ hz)) hy.2⟩
      intro z hz
      rcases (mem_insertSorted vs x z ys).1 hz with rfl | hz'
      · left
        rw [swapV_all _ (goodV_getD vs h z) _ (goodV_getD vs h y), hgt]; rfl
      · exact hy.1 z hz'

theorem sort_fold (vs : List Val) (h : ∀ v ∈ vs, goodV v) (is : List Nat) (hinc : is.Pairwise (· < ·)) :
    (is.foldr (fun i acc => insertSorted vs i acc) []).Perm is ∧
      (is.foldr (fun i acc => insertSorted vs i acc) []).Pairwise (Before vs) := by
  induction is with
  | nil => simp
  | cons i is ih =>
    have hi := List.pairwise_cons.1 hinc
    have ih' := ih hi.2
    simp only [List.foldr_cons]
    constructor
    · exact (perm_insertSorted vs i _).trans (List.Perm.cons i ih'.1)
    · exact pairwise_insertSorted vs h i _ (fun y hy => hi.1 y (ih'.1.mem_iff.1 hy)) ih'.2

theorem before_asymm (vs : List Val) (h : ∀ v ∈ vs, goodV v) (i j : Nat) :
    Before vs i j → Before vs j i → False := by
  unfold Before
  rw [swapV_all _ (goodV_getD vs h i) _ (goodV_getD vs h j)]
  cases Val.cmp (vs.getD i .extant) (vs.getD j .extant) <;> simp [Ordering.swap] <;> omega

/-! ### floats: `==` is reflexive off NaN, and `==` floats are both zero or the same bits -/

theorem cmpFin_self (m e : Int) : cmpFin m e m e = .eq := by simp [cmpFin, cmpInt]

theorem feq_self (x : Fl) (h : x.isNan = false) : x.feq x = true := by
  cases x <;> simp_all [Fl.feq, Fl.partialCmp, Fl.isNan, cmpFin_self]

theorem cmpFin_eq_cases (m1 e1 m2 e2 : Int) (h : cmpFin m1 e1 m2 e2 = .eq) :
    (e1 ≤ e2 ∧ m1 = m2 * (2 : Int) ^ (e2 - e1).toNat) ∨ (e2 ≤ e1 ∧ m1 * (2 : Int) ^ (e1 - e2).toNat = m2) := by
  unfold cmpFin at h
  rw [cmpInt_eq_iff] at h
  by_cases hle : e1 ≤ e2
  · left
    have h1 : min e1 e2 = e1 := by omega
    rw [h1] at h
    have h2 : (e1 - e1).toNat = 0 := by omega
    rw [h2] at h
    simp at h
    exact ⟨hle, h⟩
  · right
    have h1 : min e1 e2 = e2 := by omega
    rw [h1] at h
    have h2 : (e2 - e2).toNat = 0 := by omega
    rw [h2] at h
    simp at h
    exact ⟨by omega, h⟩

theorem scale_natAbs (a b : Int) (k : Nat) (h : a = b * (2 : Int) ^ k) : a.natAbs = b.natAbs * 2 ^ k := by
  rw [h, Int.natAbs_mul, Int.natAbs_pow]; rfl

theorem scale_absurd (a b : Int) (k : Nat) (N : Nat) (h : a = b * (2 : Int) ^ k) (ha : a.natAbs < N)
    (hb : N ≤ b.natAbs) : False := by
  have h1 := scale_natAbs a b k h
  have h2 : 1 ≤ 2 ^ k := Nat.one_le_two_pow
  have h3 : b.natAbs * 1 ≤ b.natAbs * 2 ^ k := Nat.mul_le_mul_left _ h2
  omega

theorem scale_absurd2 (a b : Int) (k : Nat) (N : Nat) (hk : 1 ≤ k) (h : a = b * (2 : Int) ^ k) (ha : a.natAbs < 2 * N)
    (hb : N ≤ b.natAbs) : False := by
  have h1 := scale_natAbs a b k h
  have h2 : 2 ^ 1 ≤ 2 ^ k := Nat.pow_le_pow_right (by decide) hk
  have h3 : b.natAbs * 2 ^ 1 ≤ b.natAbs * 2 ^ k := Nat.mul_le_mul_left _ h2
  omega

/-- Two finite floats given by (sign, biased exponent, fraction) that denote the same real number are both zero
or have the same three fields. -/
theorem fin_repr_inj (s1 s2 E1 E2 f1 f2 : Nat) (hs1 : s1 < 2) (hs2 : s2 < 2)
    (hf1 : f1 < 4503599627370496) (hf2 : f2 < 4503599627370496)
    (g1 g2 : Nat) (e1 e2 : Int)
    (hg1 : g1 = if E1 = 0 then f1 else 4503599627370496 + f1)
    (hg2 : g2 = if E2 = 0 then f2 else 4503599627370496 + f2)
    (he1 : e1 = if E1 = 0 then -1074 else (E1 : Int) - 1075)
    (he2 : e2 = if E2 = 0 then -1074 else (E2 : Int) - 1075)
    (h : cmpFin (if s1 = 1 then -(g1 : Int) else (g1 : Int)) e1 (if s2 = 1 then -(g2 : Int) else (g2 : Int)) e2 = .eq) :
    (g1 = 0 ∧ g2 = 0) ∨ (s1 = s2 ∧ E1 = E2 ∧ f1 = f2) := by
  have key : ∀ (sa sb Ea Eb fa fb ga gb : Nat) (ea eb : Int), sa < 2 → sb < 2 →
      fa < 4503599627370496 → fb < 4503599627370496 →
      ga = (if Ea = 0 then fa else 4503599627370496 + fa) →
      gb = (if Eb = 0 then fb else 4503599627370496 + fb) →
      ea = (if Ea = 0 then -1074 else (Ea : Int) - 1075) →
      eb = (if Eb = 0 then -1074 else (Eb : Int) - 1075) →
      ea ≤ eb →
      (if sa = 1 then -(ga : Int) else (ga : Int)) =
        (if sb = 1 then -(gb : Int) else (gb : Int)) * (2 : Int) ^ (eb - ea).toNat →
      (ga = 0 ∧ gb = 0) ∨ (sa = sb ∧ Ea = Eb ∧ fa = fb) := by
    intro sa sb Ea Eb fa fb ga gb ea eb hsa hsb hfa hfb hga hgb hea heb hle hm
    have hna : (if sa = 1 then -(ga : Int) else (ga : Int)).natAbs = ga := by split <;> omega
    have hnb : (if sb = 1 then -(gb : Int) else (gb : Int)).natAbs = gb := by split <;> omega
    by_cases hk : (eb - ea).toNat = 0
    · rw [hk] at hm
      simp at hm
      have hee : ea = eb := by omega
      by_cases ha0 : Ea = 0 <;> by_cases hb0 : Eb = 0 <;> simp [ha0, hb0] at hga hgb hea heb <;>
        by_cases h1 : sa = 1 <;> by_cases h2 : sb = 1 <;> simp [h1, h2] at hm <;> omega
    · exfalso
      by_cases hb0 : Eb = 0
      · simp [hb0] at heb
        by_cases ha0 : Ea = 0 <;> simp [ha0] at hea <;> omega
      · simp [hb0] at hgb
        have hga' : ga < 2 * 4503599627370496 := by
          by_cases ha0 : Ea = 0 <;> simp [ha0] at hga <;> omega
        exact scale_absurd2 _ _ _ 4503599627370496 (by omega) hm (by rw [hna]; exact hga') (by rw [hnb]; omega)
  rcases cmpFin_eq_cases _ _ _ _ h with ⟨hle, hm⟩ | ⟨hle, hm⟩
  · exact key s1 s2 E1 E2 f1 f2 g1 g2 e1 e2 hs1 hs2 hf1 hf2 hg1 hg2 he1 he2 hle hm
  · rcases key s2 s1 E2 E1 f2 f1 g2 g1 e2 e1 hs2 hs1 hf2 hf1 hg2 hg1 he2 he1 hle hm.symm with h0 | h0
    · exact Or.inl ⟨h0.2, h0.1⟩
    · exact Or.inr ⟨h0.1.symm, h0.2.1.symm, h0.2.2.symm⟩

def fMag (x : Nat) : Nat :=
  if x / 4503599627370496 % 2048 = 0 then x % 4503599627370496 else 4503599627370496 + x % 4503599627370496
def fExp (x : Nat) : Int :=
  if x / 4503599627370496 % 2048 = 0 then -1074 else ((x / 4503599627370496 % 2048 : Nat) : Int) - 1075

theorem decode_finite (x : Nat) (hE : ¬ x / 4503599627370496 % 2048 = 2047) :
    decode x = .fin (if x / 9223372036854775808 % 2 = 1 then -(fMag x : Int) else (fMag x : Int)) (fExp x) := by
  unfold decode fMag fExp
  by_cases h0 : x / 4503599627370496 % 2048 = 0 <;> simp [hE, h0]

theorem fin_zero_feq (s : Nat) (e : Int) :
    (Fl.fin (if s = 1 then -((0 : Nat) : Int) else ((0 : Nat) : Int)) e).feq (.fin 0 0) = true := by
  split <;> simp [Fl.feq, Fl.partialCmp, cmpFin, cmpInt]

/-- Floats that are `==` (and not NaN) are both zero or have the same bits. -/
theorem decode_feq_bits (x y : Nat) (hx : x < 18446744073709551616) (hy : y < 18446744073709551616)
    (hnx : (decode x).isNan = false) (hny : (decode y).isNan = false)
    (h : (decode x).feq (decode y) = true) :
    ((decode x).feq (.fin 0 0) = true ∧ (decode y).feq (.fin 0 0) = true) ∨ x = y := by
  by_cases hEx : x / 4503599627370496 % 2048 = 2047
  · by_cases hEy : y / 4503599627370496 % 2048 = 2047
    · right
      unfold decode at h hnx hny
      simp only [hEx, hEy, if_true] at h hnx hny
      by_cases hfx : x % 4503599627370496 = 0 <;> by_cases hfy : y % 4503599627370496 = 0 <;>
        simp [hfx, hfy, Fl.isNan] at h hnx hny
      by_cases hsx : x / 9223372036854775808 % 2 = 1 <;> by_cases hsy : y / 9223372036854775808 % 2 = 1 <;>
        simp [hsx, hsy, Fl.feq, Fl.partialCmp] at h <;> omega
    · exfalso
      rw [decode_finite y hEy] at h
      unfold decode at h hnx
      simp only [hEx, if_true] at h hnx
      by_cases hfx : x % 4503599627370496 = 0 <;> simp [hfx, Fl.isNan] at h hnx
      by_cases hsx : x / 9223372036854775808 % 2 = 1 <;> simp [hsx, Fl.feq, Fl.partialCmp] at h
  · by_cases hEy : y / 4503599627370496 % 2048 = 2047
    · exfalso
      rw [decode_finite x hEx] at h
      unfold decode at h hny
      simp only [hEy, if_true] at h hny
      by_cases hfy : y % 4503599627370496 = 0 <;> simp [hfy, Fl.isNan] at h hny
      by_cases hsy : y / 9223372036854775808 % 2 = 1 <;> simp [hsy, Fl.feq, Fl.partialCmp] at h
    · rw [decode_finite x hEx, decode_finite y hEy] at h ⊢
      have hc : cmpFin (if x / 9223372036854775808 % 2 = 1 then -(fMag x : Int) else (fMag x : Int)) (fExp x)
          (if y / 9223372036854775808 % 2 = 1 then -(fMag y : Int) else (fMag y : Int)) (fExp y) = .eq := by
        simpa [Fl.feq, Fl.partialCmp] using h
      rcases fin_repr_inj (x / 9223372036854775808 % 2) (y / 9223372036854775808 % 2)
          (x / 4503599627370496 % 2048) (y / 4503599627370496 % 2048)
          (x % 4503599627370496) (y % 4503599627370496) (by omega) (by omega) (by omega) (by omega)
          (fMag x) (fMag y) (fExp x) (fExp y) rfl rfl rfl rfl hc with h0 | h0
      · left
        rw [h0.1, h0.2]
        exact ⟨fin_zero_feq _ _, fin_zero_feq _ _⟩
      · right
        omega

/-! ### `==` ⇒ same hash key, and reflexivity, for ALL well-formed values (floats and blobs included) -/

theorem feq_right_not_nan (x y : Fl) (h : x.feq y = true) : y.isNan = false := by
  cases x <;> cases y <;> simp_all [Fl.feq, Fl.partialCmp, Fl.isNan]

def HashAllV (a : Val) : Prop := a.wf = true → ∀ b, b.wf = true → a.eq b = true → a.hashKey = b.hashKey
def HashAllE (e : Elems) : Prop :=
  Elems.wf e = true → ∀ e2, Elems.wf e2 = true → Elems.eq e e2 = true →
    e.nAttrs = e2.nAttrs ∧ e.nItems = e2.nItems ∧ Elems.attrKeys e = Elems.attrKeys e2 ∧
      Elems.itemKeys e = Elems.itemKeys e2

theorem hashAll_f64 (x y : Nat) (hx : x < 18446744073709551616) (hy : y < 18446744073709551616)
    (h : (Val.f64 x).eq (.f64 y) = true) : (Val.f64 x).hashKey = (Val.f64 y).hashKey := by
  simp only [Val.eq, eqFlat] at h
  by_cases hn : (decode x).isNan = true
  · simp only [hn, if_true] at h
    simp [Val.hashKey, hn, h]
  · have hn' : (decode x).isNan = false := by simpa using hn
    simp only [hn', Bool.false_eq_true, if_false] at h
    have hny := feq_right_not_nan _ _ h
    rcases decode_feq_bits x y hx hy hn' hny h with h0 | h0
    · simp [Val.hashKey, hn', hny, h0.1, h0.2]
    · subst h0; rfl

theorem hashAllV_of (a : Val) (h : ∀ es, a = .record es → HashAllE es) : HashAllV a := by
  intro ha b hb
  cases a with
  | f64 x =>
    cases b with
    | f64 y =>
      simp [Val.wf] at ha hb
      exact hashAll_f64 x y ha hb
    | _ => simp [Val.eq, eqFlat]
  | record es =>
    cases b with
    | record e2 =>
      simp [Val.wf] at ha hb
      intro he
      have := h es rfl ha.2 e2 hb.2 (by simpa [Val.eq] using he)
      simp [Val.hashKey, this.1, this.2.1, this.2.2.1, this.2.2.2]
    | _ => simp [Val.eq, eqFlat]
  | _ =>
    cases b <;>
      simp [Val.wf, inI32, inI64, inU32, inU64] at ha hb <;>
      simp [Val.eq, eqFlat, Val.hashKey, intKey, inI128, inI32, inI64, inU32, inU64] <;>
      grind

theorem wfE_attr {n : Bytes} {v : Val} {tl : Elems} (h : Elems.wf (.attr n v tl) = true) :
    v.wf = true ∧ Elems.wf tl = true := by simpa [Elems.wf] using h
theorem wfE_item {v : Val} {tl : Elems} (h : Elems.wf (.item v tl) = true) :
    v.wf = true ∧ Elems.wf tl = true := by simpa [Elems.wf] using h
theorem wfE_slot {k v : Val} {tl : Elems} (h : Elems.wf (.slot k v tl) = true) :
    (k.wf = true ∧ v.wf = true) ∧ Elems.wf tl = true := by simpa [Elems.wf] using h

theorem hashAllV_all (a : Val) : HashAllV a := by
  induction a using Val.rec (motive_2 := HashAllE) with
  | record es ih => exact hashAllV_of _ (by intro es' h; cases h; exact ih)
  | nil =>
    intro _ e2 _
    cases e2 <;> simp [Elems.eq]
  | attr n v tl ihv ihtl =>
    intro he e2 he2
    have hg := wfE_attr he
    cases e2 with
    | attr n2 v2 t2 =>
      have hg2 := wfE_attr he2
      simp only [Elems.eq, Bool.and_eq_true, beq_iff_eq]
      intro h
      have h1 := ihv hg.1 v2 hg2.1 h.1.2
      have h2 := ihtl hg.2 t2 hg2.2 h.2
      simp [Elems.nAttrs, Elems.nItems, Elems.attrKeys, Elems.itemKeys, h.1.1, h1, h2.1, h2.2.1, h2.2.2.1, h2.2.2.2]
    | _ => simp [Elems.eq]
  | item v tl ihv ihtl =>
    intro he e2 he2
    have hg := wfE_item he
    cases e2 with
    | item v2 t2 =>
      have hg2 := wfE_item he2
      simp only [Elems.eq, Bool.and_eq_true]
      intro h
      have h1 := ihv hg.1 v2 hg2.1 h.1
      have h2 := ihtl hg.2 t2 hg2.2 h.2
      simp [Elems.nAttrs, Elems.nItems, Elems.attrKeys, Elems.itemKeys, h1, h2.1, h2.2.1, h2.2.2.1, h2.2.2.2]
    | _ => simp [Elems.eq]
  | slot k v tl ihk ihv ihtl =>
    intro he e2 he2
    have hg := wfE_slot he
    cases e2 with
    | slot k2 v2 t2 =>
      have hg2 := wfE_slot he2
      simp only [Elems.eq, Bool.and_eq_true]
      intro h
      have h0 := ihk hg.1.1 k2 hg2.1.1 h.1.1
      have h1 := ihv hg.1.2 v2 hg2.1.2 h.1.2
      have h2 := ihtl hg.2 t2 hg2.2 h.2
      simp [Elems.nAttrs, Elems.nItems, Elems.attrKeys, Elems.itemKeys, h0, h1, h2.1, h2.2.1, h2.2.2.1, h2.2.2.2]
    | _ => simp [Elems.eq]
  | _ => exact hashAllV_of _ (by intro es h; cases h)

/-- Every value (no side condition at all) compares `Equal` to itself and is `==` to itself. -/
def ReflV (a : Val) : Prop := a.cmp a = .eq ∧ a.eq a = true
def ReflE (e : Elems) : Prop := Elems.cmp e e = .eq ∧ Elems.eq e e = true

theorem cmpBytes_self (b : Bytes) : cmpBytes b b = .eq := (cmpBytes_eq_iff b b).2 rfl

theorem cmpFloatFloat_self (x : Fl) : cmpFloatFloat x x = .eq := by
  unfold cmpFloatFloat
  by_cases hn : x.isNan = true
  · simp [hn]
  · have hn' : x.isNan = false := by simpa using hn
    simp [hn', feq_self x hn']

theorem reflV_all (a : Val) : ReflV a := by
  induction a using Val.rec (motive_2 := ReflE) with
  | record es ih => exact ⟨by simpa [Val.cmp] using ih.1, by simpa [Val.eq] using ih.2⟩
  | nil => exact ⟨by simp [Elems.cmp], by simp [Elems.eq]⟩
  | attr n v tl ihv ihtl =>
    exact ⟨by simp [Elems.cmp, cmpBytes_self, ihv.1, ihtl.1], by simp [Elems.eq, ihv.2, ihtl.2]⟩
  | item v tl ihv ihtl =>
    exact ⟨by simp [Elems.cmp, ihv.1, ihtl.1], by simp [Elems.eq, ihv.2, ihtl.2]⟩
  | slot k v tl ihk ihv ihtl =>
    exact ⟨by simp [Elems.cmp, ihk.1, ihv.1, ihtl.1], by simp [Elems.eq, ihk.2, ihv.2, ihtl.2]⟩
  | f64 x =>
    refine ⟨by simp [Val.cmp, cmpFlat, cmpFloatFloat_self], ?_⟩
    simp only [Val.eq, eqFlat]
    by_cases hn : (decode x).isNan = true
    · simp [hn]
    · have hn' : (decode x).isNan = false := by simpa using hn
      simp [hn', feq_self _ hn']
  | _ => exact ⟨by simp [Val.cmp, cmpFlat, cmpInt, cmpBool, cmpBytes_self], by simp [Val.eq, eqFlat]⟩

end SwimVerif.ValueOrd
