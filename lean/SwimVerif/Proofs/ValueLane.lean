import SwimVerif.Model.ValueLane

set_option linter.unusedSimpArgs false
set_option linter.unusedVariables false
namespace SwimVerif.VL

structure Inv (s : St) : Prop where
  cur : s.content = s.history.getLast?.getD 0
  wr : ∀ b, b ∈ s.written → b ∈ s.history ∨ b = 0
  pub : s.history ≠ [] → s.dirty = true ∨ s.lastEvent = some s.content

theorem inv_init : Inv {} := ⟨rfl, fun b h => by simp at h, fun h => absurd rfl h⟩

theorem content_mem {s : St} (h : Inv s) : s.content ∈ s.history ∨ s.content = 0 := by
  rw [h.cur]
  cases hh : s.history.getLast? with
  | none => right; rfl
  | some x => left; simpa using List.mem_of_getLast? hh

theorem inv_step {s : St} (h : Inv s) (op : Op) : Inv (step s op).1 := by
  cases op with
  | set v =>
    simp only [step]
    refine ⟨by simp, ?_, fun _ => Or.inl rfl⟩
    intro b hb
    rcases h.wr b hb with h1 | h1
    · left; exact List.mem_append_left _ h1
    · right; exact h1
  | sync r => exact ⟨h.cur, h.wr, h.pub⟩
  | write =>
    have hc := content_mem h
    simp only [step]
    cases hq : s.syncQueue with
    | cons r rest =>
      simp only []
      refine ⟨h.cur, ?_, h.pub⟩
      intro b hb
      rcases List.mem_append.mp hb with h1 | h1
      · exact h.wr b h1
      · simp at h1; subst h1; exact hc
    | nil =>
      simp only []
      by_cases hd : s.dirty = true
      · rw [if_pos hd]
        refine ⟨h.cur, ?_, fun _ => Or.inr rfl⟩
        intro b hb
        rcases List.mem_append.mp hb with h1 | h1
        · exact h.wr b h1
        · simp at h1; subst h1; exact hc
      · rw [if_neg hd]; exact h

theorem inv_run {s : St} (h : Inv s) (ops : List Op) : Inv (run s ops) := by
  induction ops generalizing s with
  | nil => exact h
  | cons op rest ih => exact ih (inv_step h op)

theorem written_from_history (ops : List Op) (b : Nat) (h : b ∈ (run {} ops).written) :
    b ∈ (run {} ops).history ∨ b = 0 := (inv_run inv_init ops).wr b h

theorem clean_means_published (ops : List Op) (hd : (run {} ops).dirty = false)
    (hs : (run {} ops).history ≠ []) : (run {} ops).lastEvent = some (run {} ops).content := by
  rcases (inv_run inv_init ops).pub hs with h | h
  · rw [hd] at h; simp at h
  · exact h

end SwimVerif.VL
