/-
C15 helper lemmas, value level: `veq` is an equivalence; the hash normal form `hnorm` respects it.
-/
import SwimVerif.Model.ReconEq

namespace SwimVerif.ReconEq
open SwimVerif.Recon

/-! ## `fltEq` -/

theorem fltEq_iff (x y : Flt) : fltEq x y = true ↔ fltCanon x = fltCanon y := by
  simp [fltEq]

theorem fltEq_refl (x : Flt) : fltEq x x = true := by simp [fltEq]

theorem beq_comm' {α : Type} [BEq α] [LawfulBEq α] (a b : α) : (a == b) = (b == a) := by
  rw [Bool.eq_iff_iff]
  simp only [beq_iff_eq]
  exact eq_comm

theorem fltEq_symm (x y : Flt) : fltEq x y = fltEq y x := by
  simp only [fltEq]
  exact beq_comm' _ _

theorem fltEq_trans (x y z : Flt) (h1 : fltEq x y = true) (h2 : fltEq y z = true) : fltEq x z = true := by
  rw [fltEq_iff] at *
  exact h1.trans h2

/-! ## `veq` is an equivalence -/

mutual
theorem veq_refl : (v : Value) → veq v v = true
  | .extant => by simp [veq]
  | .int k n => by simp [veq]
  | .float f => by simp [veq, fltEq_refl]
  | .bool b => by simp [veq]
  | .text s => by simp [veq]
  | .data bs => by simp [veq]
  | .record a i => by simp [veq, aeq_refl a, ieq_refl i]
theorem aeq_refl : (a : Attrs) → aeq a a = true
  | .nil => by simp [aeq]
  | .cons n v r => by simp [aeq, veq_refl v, aeq_refl r]
theorem ieq_refl : (i : Items) → ieq i i = true
  | .nil => by simp [ieq]
  | .val v r => by simp [ieq, veq_refl v, ieq_refl r]
  | .slot k v r => by simp [ieq, veq_refl k, veq_refl v, ieq_refl r]
end

mutual
theorem veq_symm : (v w : Value) → veq v w = veq w v
  | .extant, w => by cases w <;> simp [veq]
  | .int k n, w => by
    cases w <;> simp [veq]
    exact beq_comm' _ _
  | .float f, w => by cases w <;> simp [veq, fltEq_symm]
  | .bool b, w => by
    cases w <;> simp [veq]
    exact beq_comm' _ _
  | .text s, w => by
    cases w <;> simp [veq]
    exact beq_comm' _ _
  | .data bs, w => by
    cases w <;> simp [veq]
    exact beq_comm' _ _
  | .record a i, w => by
    cases w <;> simp [veq]
    rw [aeq_symm a, ieq_symm i]
theorem aeq_symm : (a b : Attrs) → aeq a b = aeq b a
  | .nil, b => by cases b <;> simp [aeq]
  | .cons n v r, b => by
    cases b with
    | nil => simp [aeq]
    | cons n' v' r' =>
      simp only [aeq]
      rw [veq_symm v v', aeq_symm r r', beq_comm' n n']
theorem ieq_symm : (i j : Items) → ieq i j = ieq j i
  | .nil, j => by cases j <;> simp [ieq]
  | .val v r, j => by
    cases j with
    | nil => simp [ieq]
    | val v' r' => simp only [ieq]; rw [veq_symm v v', ieq_symm r r']
    | slot k' v' r' => simp [ieq]
  | .slot k v r, j => by
    cases j with
    | nil => simp [ieq]
    | val v' r' => simp [ieq]
    | slot k' v' r' => simp only [ieq]; rw [veq_symm k k', veq_symm v v', ieq_symm r r']
end

mutual
theorem veq_trans : (u v w : Value) → veq u v = true → veq v w = true → veq u w = true
  | .extant, v, w, h1, h2 => by
    cases v <;> simp [veq] at h1
    exact h2
  | .int k n, v, w, h1, h2 => by
    cases v <;> simp [veq] at h1
    cases w <;> simp [veq] at h2 ⊢
    omega
  | .float f, v, w, h1, h2 => by
    cases v <;> simp [veq] at h1
    cases w <;> simp [veq] at h2 ⊢
    exact fltEq_trans _ _ _ h1 h2
  | .bool b, v, w, h1, h2 => by
    cases v <;> simp [veq] at h1
    cases w <;> simp [veq] at h2 ⊢
    simp [h1, h2]
  | .text s, v, w, h1, h2 => by
    cases v <;> simp [veq] at h1
    cases w <;> simp [veq] at h2 ⊢
    simp [h1, h2]
  | .data bs, v, w, h1, h2 => by
    cases v <;> simp [veq] at h1
    cases w <;> simp [veq] at h2 ⊢
    simp [h1, h2]
  | .record a i, v, w, h1, h2 => by
    cases v <;> simp [veq] at h1
    cases w <;> simp [veq] at h2 ⊢
    exact ⟨aeq_trans a _ _ h1.1 h2.1, ieq_trans i _ _ h1.2 h2.2⟩
theorem aeq_trans : (a b c : Attrs) → aeq a b = true → aeq b c = true → aeq a c = true
  | .nil, b, c, h1, h2 => by
    cases b <;> simp [aeq] at h1
    exact h2
  | .cons n v r, b, c, h1, h2 => by
    cases b with
    | nil => simp [aeq] at h1
    | cons n' v' r' =>
      cases c with
      | nil => simp [aeq] at h2
      | cons n'' v'' r'' =>
        simp only [aeq, Bool.and_eq_true, beq_iff_eq] at h1 h2 ⊢
        exact ⟨⟨h1.1.1.trans h2.1.1, veq_trans v v' v'' h1.1.2 h2.1.2⟩, aeq_trans r r' r'' h1.2 h2.2⟩
theorem ieq_trans : (i j k : Items) → ieq i j = true → ieq j k = true → ieq i k = true
  | .nil, j, k, h1, h2 => by
    cases j <;> simp [ieq] at h1
    exact h2
  | .val v r, j, k, h1, h2 => by
    cases j with
    | nil => simp [ieq] at h1
    | slot _ _ _ => simp [ieq] at h1
    | val v' r' =>
      cases k with
      | nil => simp [ieq] at h2
      | slot _ _ _ => simp [ieq] at h2
      | val v'' r'' =>
        simp only [ieq, Bool.and_eq_true] at h1 h2 ⊢
        exact ⟨veq_trans v v' v'' h1.1 h2.1, ieq_trans r r' r'' h1.2 h2.2⟩
  | .slot k0 v r, j, k, h1, h2 => by
    cases j with
    | nil => simp [ieq] at h1
    | val _ _ => simp [ieq] at h1
    | slot k' v' r' =>
      cases k with
      | nil => simp [ieq] at h2
      | val _ _ => simp [ieq] at h2
      | slot k'' v'' r'' =>
        simp only [ieq, Bool.and_eq_true] at h1 h2 ⊢
        exact ⟨⟨veq_trans k0 k' k'' h1.1.1 h2.1.1, veq_trans v v' v'' h1.1.2 h2.1.2⟩, ieq_trans r r' r'' h1.2 h2.2⟩
end

/-! ## `veq` is equality up to the canonical form of C09 (integer kinds erased, zero sign erased) -/

mutual
theorem veq_iff_canon : (v w : Value) → (veq v w = true ↔ v.canon = w.canon)
  | .extant, w => by cases w <;> simp [veq, Value.canon]
  | .int k n, w => by cases w <;> simp [veq, Value.canon]
  | .float f, w => by cases w <;> simp [veq, Value.canon, fltEq_iff]
  | .bool b, w => by cases w <;> simp [veq, Value.canon]
  | .text s, w => by cases w <;> simp [veq, Value.canon]
  | .data bs, w => by cases w <;> simp [veq, Value.canon]
  | .record a i, w => by
    cases w <;> simp [veq, Value.canon]
    rw [aeq_iff_canon a, ieq_iff_canon i]
theorem aeq_iff_canon : (a b : Attrs) → (aeq a b = true ↔ a.canon = b.canon)
  | .nil, b => by cases b <;> simp [aeq, Attrs.canon]
  | .cons n v r, b => by
    cases b with
    | nil => simp [aeq, Attrs.canon]
    | cons n' v' r' =>
      simp only [aeq, Attrs.canon, Bool.and_eq_true, beq_iff_eq, Attrs.cons.injEq]
      rw [veq_iff_canon v v', aeq_iff_canon r r']
      constructor
      · rintro ⟨⟨a, b⟩, c⟩; exact ⟨a, b, c⟩
      · rintro ⟨a, b, c⟩; exact ⟨⟨a, b⟩, c⟩
theorem ieq_iff_canon : (i j : Items) → (ieq i j = true ↔ i.canon = j.canon)
  | .nil, j => by cases j <;> simp [ieq, Items.canon]
  | .val v r, j => by
    cases j with
    | nil => simp [ieq, Items.canon]
    | slot _ _ _ => simp [ieq, Items.canon]
    | val v' r' =>
      simp only [ieq, Items.canon, Bool.and_eq_true, Items.val.injEq]
      rw [veq_iff_canon v v', ieq_iff_canon r r']
  | .slot k v r, j => by
    cases j with
    | nil => simp [ieq, Items.canon]
    | val _ _ => simp [ieq, Items.canon]
    | slot k' v' r' =>
      simp only [ieq, Items.canon, Bool.and_eq_true, Items.slot.injEq]
      rw [veq_iff_canon k k', veq_iff_canon v v', ieq_iff_canon r r']
      constructor
      · rintro ⟨⟨a, b⟩, c⟩; exact ⟨a, b, c⟩
      · rintro ⟨a, b, c⟩; exact ⟨⟨a, b⟩, c⟩
end

/-! ## The hash normal form respects `veq` -/

/-- Normal-form calls of a list of events. -/
def callsN (es : List Event) : List HTok := es.flatMap evCallsN

theorem callsN_append (a b : List Event) : callsN (a ++ b) = callsN a ++ callsN b := by
  simp [callsN]

theorem callsN_cons (e : Event) (es : List Event) : callsN (e :: es) = evCallsN e ++ callsN es := by
  simp [callsN]

theorem evCallsN_float (x y : Flt) (h : fltEq x y = true) :
    evCallsN (.num (.float x)) = evCallsN (.num (.float y)) := by
  rw [fltEq_iff] at h
  simp [evCallsN, h]

/-- The events of an attribute's body. -/
def bodyEvs (v : Value) : List Event := match v with | .extant => [] | w => evsV w

theorem evsA_cons (n : List Char) (v : Value) (r : Attrs) :
    evsA (.cons n v r) = (.startAttr n :: (bodyEvs v ++ [.endAttr])) ++ evsA r := by
  cases v <;> simp [evsA, bodyEvs]

mutual
theorem callsN_veq : (v w : Value) → veq v w = true → callsN (evsV v) = callsN (evsV w)
  | .extant, w, h => by cases w <;> simp [veq] at h; rfl
  | .int k n, w, h => by
    cases w <;> simp [veq] at h
    subst h; rfl
  | .float f, w, h => by
    cases w <;> simp [veq] at h
    simp only [evsV, callsN_cons]
    rw [evCallsN_float _ _ h]
  | .bool b, w, h => by
    cases w <;> simp [veq] at h
    subst h; rfl
  | .text s, w, h => by
    cases w <;> simp [veq] at h
    subst h; rfl
  | .data bs, w, h => by
    cases w <;> simp [veq] at h
    subst h; rfl
  | .record a i, w, h => by
    cases w <;> simp [veq] at h
    simp only [evsV, callsN_append, callsN_cons]
    rw [callsN_aeq a _ h.1, callsN_ieq i _ h.2]
theorem callsN_body : (v w : Value) → veq v w = true → callsN (bodyEvs v) = callsN (bodyEvs w)
  | .extant, w, h => by cases w <;> simp [veq] at h; rfl
  | .int k n, w, h => by
    have := callsN_veq (.int k n) w h
    cases w <;> simp [veq] at h
    simpa [bodyEvs] using this
  | .float f, w, h => by
    have := callsN_veq (.float f) w h
    cases w <;> simp [veq] at h
    simpa [bodyEvs] using this
  | .bool b, w, h => by
    have := callsN_veq (.bool b) w h
    cases w <;> simp [veq] at h
    simpa [bodyEvs] using this
  | .text s, w, h => by
    have := callsN_veq (.text s) w h
    cases w <;> simp [veq] at h
    simpa [bodyEvs] using this
  | .data bs, w, h => by
    have := callsN_veq (.data bs) w h
    cases w <;> simp [veq] at h
    simpa [bodyEvs] using this
  | .record a i, w, h => by
    have := callsN_veq (.record a i) w h
    cases w <;> simp [veq] at h
    simpa [bodyEvs] using this
theorem callsN_aeq : (a b : Attrs) → aeq a b = true → callsN (evsA a) = callsN (evsA b)
  | .nil, b, h => by cases b <;> simp [aeq] at h; rfl
  | .cons n v r, b, h => by
    cases b with
    | nil => simp [aeq] at h
    | cons n' v' r' =>
      simp only [aeq, Bool.and_eq_true, beq_iff_eq] at h
      obtain ⟨⟨hn, hv⟩, hr⟩ := h
      subst hn
      rw [evsA_cons, evsA_cons]
      simp only [callsN_append, callsN_cons, List.cons_append]
      rw [callsN_body v v' hv, callsN_aeq r r' hr]
theorem callsN_ieq : (i j : Items) → ieq i j = true → callsN (evsI i) = callsN (evsI j)
  | .nil, j, h => by cases j <;> simp [ieq] at h; rfl
  | .val v r, j, h => by
    cases j with
    | nil => simp [ieq] at h
    | slot _ _ _ => simp [ieq] at h
    | val v' r' =>
      simp only [ieq, Bool.and_eq_true] at h
      simp only [evsI, callsN_append]
      rw [callsN_veq v v' h.1, callsN_ieq r r' h.2]
  | .slot k v r, j, h => by
    cases j with
    | nil => simp [ieq] at h
    | val _ _ => simp [ieq] at h
    | slot k' v' r' =>
      simp only [ieq, Bool.and_eq_true] at h
      simp only [evsI, callsN_append, callsN_cons]
      rw [callsN_veq k k' h.1.1, callsN_veq v v' h.1.2, callsN_ieq r r' h.2]
end

/-- Once `NumericValue::hash` writes `-0.0` as `0.0` (C15-N1 repaired) the calls of an event are its normal form. -/
theorem evCalls_eq_evCallsN (h : Generated.ReconEq.floatHashZeroNormalised = true) (e : Event) :
    evCalls e = evCallsN e := by
  cases e with
  | num n => cases n <;> simp [evCalls, evCallsN, numCalls, hashedFloat, h]
  | _ => rfl

theorem hnorm_veq (v w : Value) (h : veq v w = true) : hnorm v = hnorm w := callsN_veq v w h

theorem hash_canonical (hf : Generated.ReconEq.floatHashZeroNormalised = true) (v w : Value) (h : veq v w = true) :
    (evsV v).flatMap evCalls = hnorm v ∧ (evsV v).flatMap evCalls = (evsV w).flatMap evCalls := by
  have e : evCalls = evCallsN := funext (evCalls_eq_evCallsN hf)
  rw [e]
  exact ⟨rfl, hnorm_veq v w h⟩

end SwimVerif.ReconEq
