/-
C18, T2 (parser state machine ↔ segment model), direction render ∘ parse = id:
the text consumed so far by `RoutePattern::parse`'s automaton is the rendering of its accumulator.
-/
import SwimVerif.Proofs.Route

set_option linter.unusedSimpArgs false
set_option linter.unusedVariables false
namespace SwimVerif.Route

/-- Separator written before a segment that follows `n` earlier ones. -/
def sepOf (absolute first : Bool) (xs : List Bytes) : Bytes :=
  if xs.isEmpty && first && !absolute then [] else [47]

theorem joinParts_snoc (absolute : Bool) (xs : List Bytes) (x : Bytes) (first : Bool) :
    joinParts absolute first (xs ++ [x]) = joinParts absolute first xs ++ sepOf absolute first xs ++ x := by
  induction xs generalizing first with
  | nil => cases first <;> cases absolute <;> simp [joinParts, sepOf]
  | cons y ys ih => simp [joinParts, ih false, sepOf]

def segmentText (s : Segment) : Bytes := s.toSeg.text

/-- Rendering of the finished part of the accumulator. -/
def baseText (scheme : Option Bytes) (absolute : Bool) (segments : List Segment) : Bytes :=
  schemePrefix scheme ++ joinParts absolute true (segments.map segmentText)

theorem baseText_snoc (scheme : Option Bytes) (absolute : Bool) (segments : List Segment) (s : Segment) :
    baseText scheme absolute (segments ++ [s]) =
      baseText scheme absolute segments ++ sepOf absolute true (segments.map segmentText) ++ segmentText s := by
  simp only [baseText, List.map_append, List.map_cons, List.map_nil, joinParts_snoc, List.append_assoc]

/-- The consumed text `pre` is the rendering of the accumulator (finished part + the segment in progress). -/
def textOk (pre : Bytes) (segments : List Segment) (scheme : Option Bytes) (absolute : Bool) : PState → Prop
  | .start => pre = [] ∧ segments = [] ∧ scheme = none ∧ absolute = false
  | .schemeOrLiteral _ acc => pre = acc ∧ segments = [] ∧ scheme = none ∧ absolute = false
  | .afterScheme => pre = schemePrefix scheme ∧ segments = []
  | .segmentStart => pre = baseText scheme absolute segments ++ [47] ∧ (segments = [] → absolute = true)
  | .literal _ acc =>
    pre = baseText scheme absolute segments ++ sepOf absolute true (segments.map segmentText) ++ acc
  | .parameter _ acc =>
    pre = baseText scheme absolute segments ++ sepOf absolute true (segments.map segmentText) ++ 58 :: acc
  | .failed _ => True

def TInv (pre : Bytes) (a : PAcc) : Prop := textOk pre a.segments a.scheme a.absolute a.st

theorem tinv_init : TInv [] {} := by simp [TInv, textOk]

theorem segmentText_lit (st : Nat) (acc : Bytes) : segmentText ⟨st, acc, false⟩ = acc := by
  simp [segmentText, Segment.toSeg, Seg.text]

theorem segmentText_param (st : Nat) (acc : Bytes) : segmentText ⟨st, acc, true⟩ = 58 :: acc := by
  simp [segmentText, Segment.toSeg, Seg.text]

theorem tinv_transition (pre : Bytes) (a : PAcc) (c offset : Nat) (h : TInv pre a) :
    TInv (pre ++ [c]) (transition a c offset) := by
  obtain ⟨st, scheme, absolute, segments⟩ := a
  simp only [TInv] at h ⊢
  cases st <;> simp only [textOk] at h <;> simp only [transition] <;> (repeat' split) <;>
    (try simp only [textOk, baseText_snoc, segmentText_lit, segmentText_param, List.map_append, List.map_cons,
      List.map_nil]) <;>
    cases segments <;> simp_all [baseText, joinParts, sepOf, schemePrefix]

theorem tinv_loop (a : PAcc) (offset : Nat) (s pre : Bytes) (a' : PAcc) (off' : Nat)
    (h : parseLoop a offset s = .ok (a', off')) (hi : TInv pre a) : TInv (pre ++ s) a' := by
  induction s generalizing a offset pre with
  | nil => simp [parseLoop] at h; obtain ⟨rfl, rfl⟩ := h; simpa using hi
  | cons c rest ih =>
    simp only [parseLoop] at h
    split at h
    · simp at h
    · have := ih _ _ (pre ++ [c]) h (tinv_transition pre a c offset hi)
      simpa using this

/-- `ParseState::end`: the consumed text is the rendering of the result. -/
theorem tinv_end (pre : Bytes) (a : PAcc) (offset : Nat) (segs : List Segment) (hi : TInv pre a)
    (hf : ∀ o, a.st ≠ .failed o) (h : parseEnd a offset = .ok segs) :
    pre = baseText a.scheme a.absolute segs := by
  obtain ⟨st, scheme, absolute, segments⟩ := a
  simp only [TInv] at hi
  cases st <;> simp only [textOk] at hi <;> simp only [parseEnd] at h <;> (repeat' split at h) <;>
    simp at h <;> (try subst h) <;>
    (try simp only [baseText_snoc, segmentText_lit, segmentText_param]) <;>
    cases segments <;> simp_all [baseText, joinParts, sepOf, schemePrefix]

theorem parseLoop_not_failed (a : PAcc) (offset : Nat) (s : Bytes) (a' : PAcc) (off' : Nat)
    (h : parseLoop a offset s = .ok (a', off')) (hf : ∀ o, a.st ≠ .failed o) : ∀ o, a'.st ≠ .failed o := by
  induction s generalizing a offset with
  | nil => simp [parseLoop] at h; obtain ⟨rfl, rfl⟩ := h; exact hf
  | cons c rest ih =>
    simp only [parseLoop] at h
    split at h
    · simp at h
    · rename_i hnf
      exact ih _ _ h (fun o ho => hnf o ho)

theorem map_text_toSeg (segs : List Segment) : (segs.map Segment.toSeg).map Seg.text = segs.map segmentText := by
  simp [segmentText]

theorem render_parsePattern (s : Bytes) (p : Pat) (h : parsePattern s = .ok p) : p.render = s := by
  unfold parsePattern at h
  split at h
  · simp at h
  · rename_i a offset hloop
    have hinv := tinv_loop _ _ _ [] _ _ hloop tinv_init
    have hnf := parseLoop_not_failed _ _ _ _ _ hloop (by simp)
    split at h
    · simp at h
    · rename_i segments hend
      have ht := tinv_end _ a offset segments hinv hnf hend
      split at h
      · simp at h
      · simp only [Except.ok.injEq] at h
        subst h
        simp only [Pat.render, map_text_toSeg]
        simpa [baseText] using ht.symm

end SwimVerif.Route
