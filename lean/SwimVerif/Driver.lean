/-
Line-protocol driver shared by every model (`svdriver <machine> model|monitor`).
stdin: lines `case <id>` (reset) or `<op> ;; <observed output>`; lines starting with `#` are ignored.
  model   mode: prints `<op> ;; <model output>` for every op line (case lines are echoed)
  monitor mode: prints `viol <case> line=<n> reason=<r> at: <line>` for every violation of the property
                predicate in the observed trace (only the first per case)
The last line `# k=v ...` tallies output kinds (model) / violations (monitor).
-/
import SwimVerif.Model.Util

namespace SwimVerif

structure Machine where
  σ : Type
  init : σ
  /-- model step: op text → (state, output text) -/
  step : σ → String → σ × String
  μ : Type
  minit : μ
  /-- monitor step: op text, observed output text → (state, violation?) -/
  mstep : μ → String → String → μ × Option String

def bump (k : String) : List (String × Nat) → List (String × Nat)
  | [] => [(k, 1)]
  | (k', n) :: rest => if k == k' then (k', n + 1) :: rest else (k', n) :: bump k rest

/-- Tally key of an output line: its first word, cut at the first `=`. -/
def firstWord (s : String) : String := (((words s).headD "-").splitOn "=").headD "-"

partial def loopModel (M : Machine) (h : IO.FS.Stream) (s : M.σ) (tally : List (String × Nat)) : IO Unit := do
  let line ← h.getLine
  if line.isEmpty then
    IO.println ("# " ++ " ".intercalate (tally.map fun (k, n) => s!"{k}={n}"))
    return ()
  let line := line.trimAscii.toString
  if line.startsWith "case" then
    IO.println line
    loopModel M h M.init tally
  else
    let op := ((line.splitOn " ;; ").headD "").trimAscii.toString
    let (s', out) := M.step s op
    IO.println s!"{op} ;; {out}"
    loopModel M h s' (bump (firstWord out) tally)

partial def loopMonitor (M : Machine) (h : IO.FS.Stream) (m : M.μ) (cs : String) (ln : Nat) (dead : Bool)
    (nviol : Nat) : IO Unit := do
  let line ← h.getLine
  if line.isEmpty then
    IO.println s!"# violations={nviol}"
    return ()
  let line := line.trimAscii.toString
  if line.startsWith "#" then loopMonitor M h m cs ln dead nviol
  else if line.startsWith "case" then
    loopMonitor M h M.minit line 0 false nviol
  else if dead then loopMonitor M h m cs (ln + 1) dead nviol
  else
    match line.splitOn " ;; " with
    | [op, out] =>
      let (m', v) := M.mstep m op.trimAscii.toString out.trimAscii.toString
      match v with
      | some r =>
        IO.println s!"viol {cs} line={ln} reason={r} at: {line}"
        loopMonitor M h m' cs (ln + 1) true (nviol + 1)
      | none => loopMonitor M h m' cs (ln + 1) false nviol
    | _ =>
      IO.println s!"viol {cs} line={ln} reason=malformed-line at: {line}"
      loopMonitor M h m cs (ln + 1) true (nviol + 1)

def driverMain (machines : List (String × Machine)) (args : List String) : IO UInt32 := do
  match args with
  | [name, mode] =>
    match machines.lookup name with
    | none => IO.eprintln s!"unknown model {name}"; return 2
    | some M =>
      let h ← IO.getStdin
      if mode == "model" then loopModel M h M.init [] ; return 0
      else if mode == "monitor" then loopMonitor M h M.minit "case ?" 0 false 0; return 0
      else IO.eprintln "mode must be model|monitor"; return 2
  | _ => IO.eprintln "usage: svdriver <model> model|monitor"; return 2

end SwimVerif
